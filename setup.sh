#!/bin/sh
# Builds /verif/.venv offline (idempotent): /venv's interpreter + wheelhouse z3-solver, sympy, jsonschema,
# with a .pth that exposes /venv's site-packages (numpy, mpmath ... exactly as the test suite sees them).
set -e
cd "$(dirname "$0")"
V=.venv
if [ ! -x $V/bin/python ] || ! $V/bin/python -c "import z3, sympy, numpy, mpmath" 2>/dev/null; then
  rm -rf $V
  /venv/bin/python -m venv $V
  $V/bin/pip install -q --no-index --find-links /opt/veriftools/wheels --no-deps z3-solver sympy jsonschema attrs referencing rpds-py jsonschema-specifications typing_extensions 2>&1 | tail -2 || true
  SP=$($V/bin/python -c "import sysconfig; print(sysconfig.get_paths()['purelib'])")
  echo "import site; site.addsitedir('/venv/lib/python3.12/site-packages')" > "$SP/zz_venv_overlay.pth"
fi
$V/bin/python -c "import z3, sympy, numpy, mpmath; print('verif venv ok: z3', z3.get_version_string(), 'numpy', numpy.__version__, 'mpmath', mpmath.__version__, 'sympy', sympy.__version__)"
