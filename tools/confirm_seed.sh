#!/bin/sh
# tools/confirm_seed.sh <seed-id> <dir with patch.diff demo.py meta.json> <Cxx> "<pytest files>"
# confirms: demo passes on clean copy, fails on mutated copy, listed test files pass on mutated copy; then stores under seeded/<seed-id>/
ID=$1; SRC=$2; P=$3; TESTS=$4
D=$(mktemp -d /tmp/conf.XXXXXX)
rsync -a --exclude .git --exclude results /repo/ $D/
(cd $D && PYTHONPATH=$D /venv/bin/python $SRC/demo.py > /tmp/conf.$$.clean 2>&1); rc_clean=$?
(cd $D && patch -p1 -s < $SRC/patch.diff) || { echo "PATCH FAILED"; rm -rf $D; exit 9; }
(cd $D && PYTHONPATH=$D /venv/bin/python $SRC/demo.py > /tmp/conf.$$.mut 2>&1); rc_mut=$?
rc_tests=skipped
if [ -n "$TESTS" ]; then (cd $D && /venv/bin/python -m pytest -q -p no:cacheprovider --timeout=900 $TESTS > /tmp/conf.$$.tests 2>&1); rc_tests=$?; tail -1 /tmp/conf.$$.tests; fi
echo "demo clean rc=$rc_clean (want 0); demo mutated rc=$rc_mut (want 1); tests rc=$rc_tests"
mkdir -p seeded/$ID
cp $SRC/patch.diff $SRC/demo.py seeded/$ID/
python3 - "$SRC/meta.json" "seeded/$ID/meta.json" "$rc_clean" "$rc_mut" "$rc_tests" "$TESTS" "$P" <<'PY'
import json,sys
src,dst,rc_clean,rc_mut,rc_tests,tests,prop=sys.argv[1:8]
try: m=json.load(open(src))
except Exception: m={}
m['property']=prop
m['confirmed_by_me']={'demo_on_clean_tree_rc':int(rc_clean),'demo_on_mutated_tree_rc':int(rc_mut),'pytest_files_on_mutated_tree':tests,'pytest_rc':rc_tests,'how':'scratch copy of /repo (rsync, outside /repo and /verif), patch -p1, removed afterwards'}
json.dump(m,open(dst,'w'),indent=1)
PY
rm -rf $D /tmp/conf.$$.*
