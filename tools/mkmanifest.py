"""Writes MANIFEST.json from the table below (kept in one place so the manifest is always valid)."""
import json, os
root = os.path.dirname(os.path.dirname(os.path.abspath(__file__)))
props = [json.loads(l)['id'] for l in open(os.path.join(root, 'properties.jsonl'))]

TRUST_COMMON = "CPython running the real code objects; z3 5.1 / cvc5 1.0.3; the sidecar contracts in vf/contracts (postconditions taken from the property statement)"

CHECKS = {
 "C16": dict(
   category="proof",
   text="Every claimed instance is an identity of canonical forms in Q[x, c_0..c_N] (or its fraction field), obtained by running the real polynomial.py / floating_point_algorithms.py functions on ring elements: it holds for ALL rational coefficients and arguments at once. Degrees 0..40, all schemes, both coefficient orders, the len>500 scheme switch, Laurent/ratio forms, multiply/add/derivative/taylorat; divmod with every zero pattern reached by exhaustive forking of its coefficient zero-tests (P = Q*D + R and deg R < deg D on every path). compensated_horner is verified modularly against the EFT contracts of its callees.",
   design_ref="DESIGN.md section 4 C16, section 2 E4",
   note="Trusted: vf/ring.py canonical-form arithmetic, fractions.Fraction, sympy.factor_list (path splitting only). Degree range is enumerated (that is the property's quantifier), values are universally quantified. divmod lengths bounded (quick: len(P)<=6, len(D)<=4; thorough: 8/5) - stated bound; beyond it not claimed.",
   technique="contract-based deductive verification: real functions executed on symbolic ring elements; postcondition = ring identity decided by canonical form (complete decision procedure), path forking on coefficient zero tests"),
 "C14": dict(
   category="proof",
   text="The real code objects of utils.diff_ulp (scalar branch, all flush/equal_nan settings; complex branch modularly), diff_log2ulp and ulp are executed on symbolic float16/32/64 scalars; every feasible path gives an SMT obligation `path => result == |rank(x)-rank(y)|` (rank = signed lattice position), discharged bit-precisely for ALL bit patterns. Lattice lemmas (rank is an order isomorphism onto an integer interval) make that number the count of representable steps; symmetry/additivity/k-th neighbour are LIA corollaries. ulp: x+ulp(x)=nextafter for every finite x, ulp(-x)=ulp(x), special values.",
   design_ref="DESIGN.md section 4 C14, section 2 E2",
   note="Trusted: E2 models of NumPy scalar operations (view, isfinite/isinf/isnan, frexp exponent, ldexp(1,k); cross-checked against NumPy each run); NumPy arithmetic = SMT-LIB FP with RNE; Python ints backed by 80-bit vectors with discharged no-overflow side conditions. List/ndarray dispatch branches not under contract.",
   technique="contract-based deductive verification: symbolic execution of the real code object (shadowed builtins), per-path verification conditions in QF_FPBV discharged by z3/cvc5"),
 "C18": dict(
   category="proof",
   text="MXCSR is ghost state; the real get_mxcsr/set_mxcsr/__call__ and the context class's __enter__/__exit__ run on a symbolic 32-bit register value for all 45 (FZ,DAZ,RN) argument combinations: the bit update equals the Intel-SDM mask/value spec, entry changes only requested bits of the value AT ENTRY (context may be created earlier under any other value), exit restores the entry value on normal and exceptional exit and never swallows; nesting to any depth by an induction lemma over those contracts.",
   design_ref="DESIGN.md section 4 C18",
   note="Trusted stubs: the ldmxcsr/stmxcsr thunks (justified by a ground obligation on the byte strings); Python with-statement semantics. Assumed, not decided: hardware observes the mode (last clause of the statement); single thread; the same context object is not re-entered (the code asserts it).",
   technique="contract-based deductive verification: ghost-state contracts on the real methods, bit-vector verification conditions discharged by z3"),
 "C19": dict(
   category="proof",
   text="(A) The integer stepping comprehension is located in real_samples by AST pattern each run (all 3 sites) and proved for ALL num >= 2 and step >= 1 over the integers: length num, offsets 0..step, consecutive offsets differ by floor(step/(num-1)) or one more, strictly increasing iff step >= num-1. (B) The real code object of real_samples runs on SYMBOLIC user bounds (every pair of finite float16/float32 bit patterns with min < max, non-negative / non-positive / zero-straddling, include_subnormal x include_zero) for concrete requested sizes 1..4 (thorough: 1..6, + float64): every feasible path returns without raising, contains the (possibly moved) bounds, stays within them, is non-decreasing before numpy.unique, has no NaN / no subnormals unless requested, and same-sign neighbours are equally spaced up to one ULP.",
   design_ref="DESIGN.md section 4 C19",
   note="Layer B is bounded in the requested size (stated bound) though universal in the bounds; layer A is unbounded but covers only the extracted comprehension - the two are not mechanically connected. Not under contract: default-bounds special values (inf/huge/nan plumbing), complex/pair/triple Cartesian products. Assumed: numpy.unique on a non-decreasing array removes repeated neighbours; int(a/b) over-approximated; diff_ulp replaced by its C14 contract; E2 NumPy models.",
   technique="contract-based deductive verification: AST-extracted kernel as Int/NIA lemmas + symbolic execution of the real code object with per-path QF_FPBV verification conditions (z3)"),
 "C07": dict(
   category="proof",
   text="Structural identity is reduced to an invariant WF(ctx) of every construction (induction over the history) plus injectivity of the keys, all over the real key functions run on abstract objects assembled from the real function objects: two-level operand keys injective under WF (symbolic intkeys), operator keys equal iff kind/arity/operand keys equal (arity 0..4), key spaces of symbols/constants/operators disjoint, constant value keys (built by the real _compute_serialized on symbolic float16/32/64/longdouble/float payloads) equal under Python dict semantics iff the payloads have the same class and bit pattern, _register_expression looks up or registers under exactly that key with a fresh id and writes nothing else, Type singletons, normalize_like preserves the reference type.",
   design_ref="DESIGN.md section 4 C07",
   note="Assumed: Python dict/tuple equality semantics, IEEE == of float payloads, injectivity of float repr on non-NaN values. Known finding (open): NaN payloads are never shared (harmless duplicates). Expr.__new__'s operand normalisation and the alternative constant context are not under contract; operator arities enumerated to 4; O4/O5 are exhaustive finite enumerations, not SMT.",
   technique="contract-based deductive verification: real key/registration functions on abstract objects, injectivity obligations in QF_FP/LIA/UF discharged by z3; invariant (WF) preserved by the registration contract"),
 "C04": dict(
   category="proof",
   text="Local soundness of the rewriter as verification conditions over the REAL code: every Rewriter rule method for the float/boolean kinds is run on abstract expressions with holes (lazy, exhaustive shape refinement exactly as deep as the code inspects; aliasing and key order forked; symbolic constant payloads) and every path yields `hypotheses => [[result]] = [[input]]` under an independent denotation - Real semantics with definedness, and SMT floating point (float32 and Python-float passes) under the statement's no-NaN/overflow/underflow precondition; every non-None entry of the three relational tables is a closed FP fact for float16/32/64; every case of the sign/zero inference is sound under the contract answers of its operands (structural induction); rules never raise on well-typed input. Composition to whole DAGs by congruence (lemma). quick: FP passes of the comparison/select/logical rules are left to the thorough tier.",
   design_ref="DESIGN.md section 4 C04, section 2 E3",
   note="Trusted: vf/denote.py; in-place shadows of module globals (isinstance, abs, min, max, bool, float, math, numpy) and the extended *_types tuples. Assumed: operands are rewriter fix-points (bottom-up traversal); kinds the code never names behave like an opaque leaf; constants' like is a symbol; inference answers of opaque operands are the strongest ones supported by a forked sign/finiteness knowledge class. NOT covered: complex, integer, list/item, apply, bitwise kinds; Expr.rewrite traversal and RewriteContext memo; termination. Known finding (open): sign inference of a quotient with infinite operands / signed-zero divisor (FP clause). `_is_finite` soundness is attempted but not claimed (never acted upon).",
   technique="contract-based deductive verification: symbolic execution of the real rule/inference methods on abstract expressions (holes), per-path verification conditions against an independent denotational semantics, discharged by z3 (QF_NRA / QF_FP); table rows as closed SMT facts"),
 "C10": dict(
   category="proof",
   text="The real building blocks (floating_point_algorithms.add_2sum in all four option sets, split_veltkamp with and without scaling; the utils copies add_2sum/add_fast2sum/double_2sum/double_fast2sum/split_veltkamp/square_dekker; the algorithms.py copies used by complex log/log1p incl. the real splitter-constant selection; apmath.two_sum/quick_two_sum) run on symbolic floats; every rounded operation is logged and gets a bit-precise exactness query (round-up and round-down agree); the postcondition of the statement (s+t = x+y, xh+xl = x, h+l = x*x) is an identity of exact arithmetic over the operations proved exact, decided by canonical forms; the high part is structurally RN(op); both halves of the splitter have at most ceil(p/2) significant bits. Claimed: float16 complete for these, float32 for Fast2Sum variants and the splitters.",
   design_ref="DESIGN.md section 4 C10, section 2 E1",
   note="Precondition = documented domain (finite inputs, no overflow in intermediates, |x|>=|y| for Fast2Sum, error term representable for squares). NOT claimed (attempted, reported as best-effort): float32 2Sum (last addition) and every two-operand Dekker product (mul_dekker, multiply_dekker, two_prod: solver budget exhausted even at float16; thorough tier only), all of float64. The make_api dispatch wrapper runs for real; mp_ctx paths not taken.",
   technique="contract-based deductive verification: real functions on symbolic floats, per-operation exactness VCs in QF_FP (z3/cvc5) + postcondition as ring identity over the proved-exact operations"),
 "C15": dict(
   category="proof",
   text="The real utils.mpf2float code object runs on a symbolic mpf for float16/32/64, both signs, flush on/off: on every feasible path the result is exactly the p-bit rounded value when that is a normal number (spec written from the IEEE encoding), signed infinity from 2^(emax+1), signed zero below half the smallest subnormal (and for every subnormal value when flushing), never NaN, sign preserved; _normalize is called with the target precision and round-to-nearest. The flush_subnormals option (unspecified/False/True) reaches mpf2float as False/False/True and the working precision is prec + int(prec*multiplier) + extra_prec (finite-case runs of the real methods).",
   design_ref="DESIGN.md section 4 C15",
   note="ASSUMED: mpmath's _normalize contract (round to prec bits, ties to even, odd mantissa, bc = bit_length) - only consequences are used; E2 models dtype(int) and numpy.ldexp (bit-vector encoder, cross-checked against NumPy). Not under contract: evaluation of the user function inside mpmath and its double rounding; subnormal results (the statement only requires normal results to be nearest).",
   technique="contract-based deductive verification: symbolic execution of the real code object with the mpmath callee replaced by its contract; per-path VCs in QF_BV/FP (z3); finite-case option plumbing"),
 "C08": dict(
   category="proof",
   text="Structural induction over the graph with an exhaustively enumerated induction step: for every kind the NumPy target prints and every tuple of operand dtype classes of a well-typed program (float16/32/64, complex64/128, booleans; all mixed pairs for arithmetic, eq/ne and select; one extra level where get_type and is_complex interact), the real static inference on real nodes equals the dtype produced by executing the code the real printer emits at debug level 1 (the emitted type assertions are live); base cases: numeric and named constants like every dtype, argument casts, up/downcast.",
   design_ref="DESIGN.md section 4 C08",
   note="Assumed: NumPy result dtypes depend only on operand dtypes (NEP 50) - one witness per dtype tuple decides a case; compositionality of get_type. Exhaustive finite case analysis, not SMT. Known findings (open): maximum/minimum of operands of different widths (the builtin max/min returns an operand unchanged). Integer, list/item and bitwise kinds not covered.",
   technique="contract-based verification by exhaustive abstract case analysis: static type (real get_type) vs dtype of the executed emitted code, per kind and operand dtype tuple; induction over the graph"),
 "C05": dict(
   category="proof",
   text="Induction over the graph with finite, separately decided obligations: every string template of the Python, NumPy and C++ kind tables parses/compiles (g++ for float and double), has the operator or library function and operand order of an independent spec table (AST comparison), names an existing library function and evaluates like the kind's reference semantics on a grid of special and asymmetric operands (bit patterns); the real PrinterBase.tostring step, run for one node with the recursive calls replaced by their contract, binds a needed reference exactly once, after its operands, never re-binds a defined name and emits debug assertions for that name only (all kinds x need_ref x debug x operand states, three targets); shared sub-expressions get need_ref; Context._register_reference returns a name owned by this expression only and changes nothing else (exhaustive ghost states).",
   design_ref="DESIGN.md section 4 C05",
   note="Primitive-library semantics (math, NumPy, libm) are assumed; templates are proved to name the right primitive with operands in order. The step from these contracts to 'the emitted program evaluates the graph' is an induction argument, not mechanised. Not under contract: callable templates (upcast/downcast/list/item), make_apply wrappers, integer/bitwise kinds, value-text round trip.",
   technique="contract-based deductive verification by structural induction: per-template obligations decided by parser/compiler + spec tables, printer-step contract on the real code with callee contracts, exhaustive ghost-state enumeration for name registration"),
 "C06": dict(
   category="proof",
   text="Parse-back contract of the real printers per operation kind (induction step of a structural induction): every StableHLO/CHLO operator named by the table exists in an independent operator inventory and is the operator that implements the kind; for every kind and every combination of operand states (symbol / shared node / inline node / constant) and need_ref, the text emitted by the real stablehlo.Printer parses back (independent dag parser) to the node: operator, operands in order, ComparisonDirection = kind, `:$ref` present iff needed, bound once and before use, ConstantLike attached to a defined operand with the value preserved; XLA client templates are builder calls with the spec's name and operands in order; numeric constants print as ScalarLike(<defined like>, value).",
   design_ref="DESIGN.md section 4 C06",
   note="Assumed: the operator inventories written from the public dialect definitions (not installed), operator semantics. Not under contract: Pat<> wrapper, alternative constant context, PrinterBase step for the XLA target (C05/O2 covers the shared code). Known finding (open): StableHLO_PosOp does not exist.",
   technique="contract-based verification by structural induction: per-kind parse-back obligations on the real printers decided by an independent dag parser and spec tables"),
 "C03": dict(
   category="proof",
   text="The algorithm definitions are traced by the repository's tracer and expanded through the package's own definitions down to primitive real operations (the expanded DAGs have 4..143 nodes); identities are SMT obligations `bits(lhs) == bits(rhs)` over two translations of the DAG with add/sub/mul/div/sqrt and the real natives uninterpreted and negation/abs/comparisons/select/min/max exact, the abstraction being justified by a lemma library of single-operation IEEE facts discharged bit-precisely per format and instantiated on the terms that occur. Claimed for float32- and float64-based types: conjugation symmetry of absolute, acos, acosh, asin, asinh, atan, exp, sqrt, square; oddness of asin and asinh (non-zero components); asinh(z) = -i asin(iz); atan(z) = -i atanh(iz); acosh(z) = +-i acos(z) by the sign of imag z; imag acos = -imag asin.",
   design_ref="DESIGN.md section 4 C03, section 9",
   note="Assumed: atan2 odd in its first argument incl. sign of zero, sin odd, cos even (natives); at float64 the lemmas about division and negated addition/subtraction time out and are ASSUMED there (proved at float32) - float64 identities are proofs relative to them. NOT claimed (attempted; abstract counter-models that do not replay on the real code): conj of log/log1p/log2/log10/atanh, oddness of atan/atanh, evenness of square, the zero-component lattice, real-valued algorithms, log10/log2 = log/ln b.",
   technique="contract-based deductive verification: identities over the traced+expanded DAG in QF_UFFP (uninterpreted arithmetic + ground-instantiated, separately proved IEEE lemmas), z3"),
 "C12": dict(
   category="proof",
   text="Exact-sum clause of the statement, verified modularly in exact arithmetic: the real apmath functions vecsum, vecsumerr, renormalize (eager and functional, fast and safe, with and without a size limit), nztopk, negate, add, subtract, multiply and square run on ring elements with two_sum / quick_two_sum / two_prod replaced by their contracts (s + t = x + y, p + e = x*y with s, p arbitrary - discharged under C10); every zero test on an item forks exhaustively; on every path the exact sum of the output equals the exact sum / difference / product / square of the input, and with a size limit k the output is the first k items of the unlimited output. Holds for every floating-point format at once.",
   design_ref="DESIGN.md section 4 C12",
   note="List lengths are enumerated (renormalisation 1..4 items quick / 1..6 thorough; add/subtract up to 2+2 terms and products up to 2x1 through the callee bodies; add/subtract/multiply/square up to 4+4 / 4x4 / 4 terms against the callee CONTRACTS of vecsum and renormalize: same length, same exact sum - these contracts are discharged directly only up to 4 (6) items and are used beyond that length as an assumption) - a stated bound; values are universally quantified. NOT decided: the normal-form clause (decreasing magnitudes, non-overlap after two passes) and the 1-ulp bound of products/squares (bit-precise reasoning over ~30 chained additions, not within reach). The make_api dispatch wrapper is bypassed.",
   technique="contract-based deductive verification, modular: real functions on ring elements with callee contracts, exhaustive path forking on zero tests, postcondition = ring identity decided by canonical forms"),
 "C11": dict(
   category="proof",
   text="The single-operation members of the statement, bit-precisely for every input: next / nextup / nextdown return the float whose bit pattern is bits(x)+-1 for every normal x whose neighbour in that direction is normal (both branches at float16 and float32, the dividing branch at float64); is_power_of_two (and invert=True) answers exactly 'one significand bit set' on its documented domain at float16/32/64; is_one_or_three_times_power_of_two answers exactly 'significand 1.0 or 1.5' where P*x is finite and the chain stays normal. The real functions run on symbolic floats; one multiplication/division by a format constant per obligation is bit-blasted (z3, cvc5 for the float32 multiplication branch).",
   design_ref="DESIGN.md section 4 C11, 9.7",
   note="NOT decided by contracts: the ULP bounds of 3Sum/4Sum/mul_add/dot2 and of the fma variants (against the correctly rounded exact result over chains of two-sums and Dekker products; see DESIGN 9.7). For these a BOUNDED native stand-in runs the real functions on directed operand tuples (6000/3000/3000 per operation and format, quick; x10 thorough) against an exact rational reference; its obligations are labelled kind=bounded in the evidence, excluded from the obligation counts and never counted as proved; each fma variant is split by input region so that the open known finding (overflow margin with cancellation, fix_overflow=True) cannot hide another failure. next at float64 on the multiplying branch is attempted in the thorough tier and not claimed. is_power_of_two is also verified with the constants of get_is_power_of_two_constants (defect found and repaired).",
   technique="contract-based deductive verification: real functions executed on symbolic IEEE floats, per-path verification conditions in QF_BVFP discharged by z3 5.1 / cvc5 1.0.3"),
 "C13": dict(
   category="proof",
   text="float -> fraction, proved for every finite float16/float32/float64: the real utils.float2fraction (NumPy-scalar branch) runs on a float assembled from a symbolic sign bit, a CONCRETE exponent field (one run per field value: all 31 + 255 + 2047 binades, subnormals included) and a symbolic fraction field; on every path the returned (num, denom) satisfies num * D == N * denom with N/D the IEEE-754 value of the bit pattern, denom != 0, no path raises, and every integer operation stays inside the bit-vector model (QF_BV with constant shifts, z3). The other converters of the statement (float2bin/bin2float, float2mpf/mpf2float, fraction2float, mpf2expansion/expansion2mpf, float2expansion, mpf2multiword/multiword2mpf) go through mpmath and string manipulation and are covered by a BOUNDED stand-in only (never counted as proved): native round trips and exact-value comparison on every float16 bit pattern and on float32/float64 samples over every exponent-field value.",
   design_ref="DESIGN.md section 9.8",
   note="Proof part: finite inputs of float2fraction only; fractions.Fraction replaced by a pair holder (gcd normalisation is the library's). Bounded part is labelled bounded in the evidence (bounded_obligations) and excluded from the obligation counts; its bound is the property's own quantifier (float16 exhaustive; float32/float64: all exponents x boundary and seeded pseudo-random fraction fields) plus seeded cross-type expansion inputs. -0.0 -> +0.0 accepted for fraction/mpf/expansion routes (formats without signed zero); the same loss through float2bin is an open known finding.",
   technique="contract-based deductive verification (real code object on symbolic floats, exhaustive exponent split, per-path bit-vector verification conditions, z3) + bounded native stand-in for the mpmath/string converters"),
}
NA_PENDING = "check not built yet in this session (planned, see DESIGN.md section 4)"
NA = {
 "C01": "not applicable: the postcondition mentions the correctly rounded TRUE value of transcendental functions and a statistical rate over an input distribution; no contract within reach of z3/cvc5/Lean-Mathlib here can state or decide either (no verified IEEE/transcendental library; generated code calls libm natives with unspecified error). The decidable fragments are claimed under C03/C10/C05/C08.",
 "C02": "not applicable: same reason as C01 (ULP distance to the true value of asin/acos/asinh/acosh/hypot; exhaustive float32 comparison against a multiprecision oracle is enumeration, a different technique family).",
}

def main():
    checks = []
    for pid in props:
        if pid in CHECKS:
            c = CHECKS[pid]
            checks.append({
              "property_id": pid,
              "quick_cmd": "./check %s --tier quick" % pid,
              "thorough_cmd": "./check %s --tier thorough" % pid,
              "evidence_file": "/verif/evidence/%s.json" % pid,
              "replay_cmd_template": "./check %s --replay {path}" % pid,
              "engine": c.get("engine", "vf"),
              "level_claimed": {"category": c["category"], "text": c["text"], "design_ref": c["design_ref"]},
              "level_note": TRUST_COMMON + ". " + c["note"],
              "technique": c["technique"],
            })
    na = [{"property_id": p, "reason": NA.get(p, NA_PENDING)} for p in props if p not in CHECKS]
    m = {
      "version": 1,
      "setup_cmd": "./setup.sh",
      "hooks": {"guard": "FUNCTIONAL_ALGORITHMS_VERIF", "enable": "no hooks are needed: engines instrument through namespaces/subclasses created in /verif; checks import /repo's working tree with PYTHONPATH=/repo", "baseline_off_cmd": "cd /repo && /venv/bin/python -m pytest -ra -q -p no:cacheprovider --timeout=900 --continue-on-collection-errors", "source_commits": [], "add_only": True},
      "engines": [
        {"name": "E0 core", "path": "vf/core.py", "serves_properties": sorted(CHECKS), "kind_free_text": "obligation pool, z3/cvc5 portfolio, verdict protocol, evidence/replay writer"},
        {"name": "E1 symfp", "path": "vf/symfp.py", "serves_properties": ["C10"], "kind_free_text": "operation log + rounding-mode-agreement exactness queries + ring identity over exact operations"},
        {"name": "E1 dagfp", "path": "vf/dagfp.py", "serves_properties": ["C03"], "kind_free_text": "repository tracer + expansion to primitive kinds; DAG -> SMT with uninterpreted arithmetic; lemma library and ground instantiation"},
        {"name": "E2 symrun", "path": "vf/symrun.py", "serves_properties": ["C07", "C11", "C13", "C14", "C15", "C18", "C19"], "kind_free_text": "runs real code objects on symbolic NumPy scalars / ints with shadowed builtins; decision-prefix path forking; per-path VCs"},
        {"name": "E3 symexpr", "path": "vf/symexpr.py", "serves_properties": ["C04"], "kind_free_text": "abstract expressions with holes: lazy shape refinement, aliasing, key-order and inference-knowledge forks over the real Rewriter/Expr code; vf/denote.py semantics; vf/witness.py native replay"},
        {"name": "E4 ring", "path": "vf/ring.py", "serves_properties": ["C12", "C16"], "kind_free_text": "canonical-form polynomial/rational-function arithmetic with path forking on zero tests"},
      ],
      "checks": checks,
      "not_applicable": na,
      "notes": "Technique family: contract-based deductive verification of the real code (self-generated verification conditions discharged by z3/cvc5 or complete ring/finite-case deciders). Exit codes: 0 held, 1 violation (VIOLATION line), 2 undecided, 3 engine error. Genuine defects repaired by 'fix:' commits in /repo are listed in known_findings.json as fixed entries.",
    }
    json.dump(m, open(os.path.join(root, 'MANIFEST.json'), 'w'), indent=1)
main()
