#!/bin/sh
# tools/seedcheck.sh <Cxx> <patch.diff> : apply a seeded change to a scratch copy of /repo, run the quick check on it
P=$1; PATCH=$2
D=$(mktemp -d /tmp/seed.XXXXXX)
rsync -a --exclude .git --exclude results /repo/ $D/
(cd $D && patch -p1 -s < $PATCH) || { echo "PATCH FAILED"; rm -rf $D; exit 9; }
VERIF_REPO=$D VERIF_NO_EVIDENCE=1 ./check $P ${TIER:+--tier $TIER} > /tmp/seedcheck.$$.log 2>&1
rc=$?
grep -E "^VIOLATION|^KNOWN|^UNDECIDED|^ENGINE" /tmp/seedcheck.$$.log | head -${LINES_MAX:-4}
tail -1 /tmp/seedcheck.$$.log
echo "exit=$rc"
rm -rf $D /tmp/seedcheck.$$.log
