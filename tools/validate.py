"""Validate MANIFEST.json and every evidence file against the schemas in /root/.vp (development aid)."""
import glob, json, sys, os
import jsonschema
root = os.path.dirname(os.path.dirname(os.path.abspath(__file__)))
ms = json.load(open('/root/.vp/MANIFEST.schema.json')); es = json.load(open('/root/.vp/EVIDENCE.schema.json'))
m = json.load(open(os.path.join(root, 'MANIFEST.json')))
jsonschema.validate(m, ms)
props = [json.loads(l)['id'] for l in open(os.path.join(root, 'properties.jsonl'))]
claimed = [c['property_id'] for c in m['checks']]; na = [c['property_id'] for c in m.get('not_applicable', [])]
assert sorted(claimed + na) == sorted(props), (claimed, na)
print('manifest ok:', claimed, 'n/a:', na)
for c in m['checks']:
    p = os.path.join(root, c['evidence_file'].replace('/verif/', ''))
    if os.path.exists(p):
        e = json.load(open(p)); jsonschema.validate(e, es)
        cov = e['coverage']
        print(' evidence ok', c['property_id'], e['level'], cov.get('obligations'), cov.get('discharged'), e['wall_s'])
        if e['level'] == 'proof': assert cov['obligations'] == cov['discharged'], 'proof needs all discharged'
    else:
        print(' evidence MISSING', c['property_id'])
