#!/bin/sh
# tools/mut.sh <Cxx> <file-relative-to-repo> <python-regex-old> <new>   -- development aid:
# copies /repo to a scratch dir, applies one textual mutation, runs the check against the copy, removes the copy.
P=$1; F=$2; OLD=$3; NEW=$4
D=$(mktemp -d /tmp/mut.XXXXXX)
rsync -a --exclude .git --exclude results /repo/ $D/
python3 - "$D/$F" "$OLD" "$NEW" <<'PY'
import sys,re
p,old,new=sys.argv[1:4]
s=open(p).read()
n=s.count(old)
if n<1: print("MUTATION: pattern not found"); sys.exit(9)
s=s.replace(old,new,1)
open(p,'w').write(s)
print("MUTATION applied (%d occurrences, first replaced)"%n)
PY
[ $? -eq 0 ] || { rm -rf $D; exit 9; }
VERIF_REPO=$D VERIF_NO_EVIDENCE=1 ./check $P ${TIER:+--tier $TIER} 2>&1 | grep -v "conda\|Warn\|warn" | grep -E "VIOLATION|KNOWN|UNDECIDED|ENGINE|exit" | head -${LINES_MAX:-6}
rm -rf $D
