"""E0 - obligation core: obligations, solver portfolio, pool, verdict protocol, evidence, replay files.

Exit protocol of every check (see DESIGN.md section 3):
  0  every claimed obligation discharged (KNOWN-FINDING lines may be printed)
  1  a claimed obligation is refuted -> "VIOLATION property=<id> replay=<path>"
  2  a claimed obligation is undecided (unknown / timeout)   -- never reported as a violation
  3  engine error (traceback, self-check failure)            -- never reported as a violation
"""
from __future__ import annotations

import json
import multiprocessing as mp
import os
import subprocess
import sys
import tempfile
import time
import traceback
from dataclasses import dataclass, field
from fractions import Fraction

ROOT = os.path.dirname(os.path.dirname(os.path.abspath(__file__)))
REPO = os.environ.get("VERIF_REPO", "/repo")
SEED = int(os.environ.get("VERIF_SEED", "0") or 0)
NPROC = int(os.environ.get("VERIF_NPROC", "16"))

DISCHARGED, REFUTED, UNDECIDED, ERROR = "discharged", "refuted", "undecided", "engine-error"


@dataclass
class Obligation:
    """One proof obligation.

    Exactly one of `smt2` (an SMT-LIB2 script WITHOUT (check-sat); unsat = discharged) or `decided`
    (a verdict already computed by a complete non-SMT decider: ring normal form, finite case table,
    external parser) is given.  `expect` is "unsat" for ordinary obligations and "sat" for cover
    (reachability) and canary obligations, which guard against vacuity.
    """

    id: str
    prop: str
    functions: tuple = ()
    text: str = ""  # human-readable statement of the clause
    smt2: str | None = None
    decided: str | None = None  # DISCHARGED / REFUTED / UNDECIDED / ERROR
    detail: object = None  # decider's reason / counterexample
    claimed: bool = True
    budget_s: float = 60.0
    expect: str = "unsat"
    kind: str = "vc"  # vc | cover | canary | lemma | model-crosscheck
    backend: str = "z3"
    meta: dict = field(default_factory=dict)
    # results
    verdict: str | None = None
    seconds: float = 0.0
    solver: str | None = None
    model: dict | None = None
    solver_output: str | None = None


# ---------------------------------------------------------------------------------------------
# solver workers
# ---------------------------------------------------------------------------------------------


def _decode_model(m):
    import z3

    out = {}
    for d in m.decls():
        if d.arity() != 0:
            continue
        v = m[d]
        try:
            s = v.sort()
            k = s.kind()
            if k == z3.Z3_FLOATING_POINT_SORT:
                bv = z3.simplify(z3.fpToIEEEBV(v))
                # evaluate through the model in case simplify left a term
                if not z3.is_bv_value(bv):
                    bv = m.eval(z3.fpToIEEEBV(v), model_completion=True)
                bits = bv.as_long() if z3.is_bv_value(bv) else None
                if bits is None and z3.is_fp_value(v):
                    # NaN has no unique encoding: pick the canonical quiet NaN
                    if v.isNaN():
                        bits = ((1 << s.ebits()) - 1) << (s.sbits() - 1) | 1 << (s.sbits() - 2)
                out[d.name()] = {"sort": "fp", "eb": s.ebits(), "sb": s.sbits(), "bits": bits, "repr": str(v)}
            elif k == z3.Z3_BV_SORT:
                out[d.name()] = {"sort": "bv", "n": s.size(), "value": v.as_long()}
            elif k == z3.Z3_INT_SORT:
                out[d.name()] = {"sort": "int", "value": v.as_long()}
            elif k == z3.Z3_REAL_SORT:
                if z3.is_rational_value(v):
                    out[d.name()] = {"sort": "real", "value": "%s/%s" % (v.numerator_as_long(), v.denominator_as_long())}
                else:
                    out[d.name()] = {"sort": "real", "value": str(v)}
            elif k == z3.Z3_BOOL_SORT:
                out[d.name()] = {"sort": "bool", "value": z3.is_true(v)}
            else:
                out[d.name()] = {"sort": str(s), "value": str(v)}
        except Exception as e:  # pragma: no cover
            out[d.name()] = {"sort": "?", "value": str(v), "err": repr(e)}
    return out


def _solve_z3(smt2, budget_s, want_model, tactic=None):
    import z3

    z3.set_param("timeout", int(budget_s * 1000))
    ctx = z3.Context()
    if tactic:
        s = z3.Tactic(tactic, ctx=ctx).solver()
    else:
        s = z3.Solver(ctx=ctx)
    s.set("timeout", int(budget_s * 1000))
    s.from_string(smt2)
    r = s.check()
    if r == z3.unsat:
        return "unsat", None, ""
    if r == z3.sat:
        model = None
        if want_model:
            # decode in the default context for simplicity
            m = s.model()
            model = _decode_model_ctx(m, ctx)
        return "sat", model, ""
    return "unknown", None, s.reason_unknown()


def _decode_model_ctx(m, ctx):
    import z3

    out = {}
    for d in m.decls():
        if d.arity() != 0:
            continue
        v = m[d]
        try:
            s = v.sort()
            k = s.kind()
            if k == z3.Z3_FLOATING_POINT_SORT:
                bv = m.eval(z3.fpToIEEEBV(v, ctx=ctx), model_completion=True)
                bits = bv.as_long() if z3.is_bv_value(bv) else None
                if z3.is_fp_value(v) and v.isNaN():
                    bits = ((1 << s.ebits()) - 1) << (s.sbits() - 1) | 1 << (s.sbits() - 2)
                out[d.name()] = {"sort": "fp", "eb": s.ebits(), "sb": s.sbits(), "bits": bits, "repr": str(v)}
            elif k == z3.Z3_BV_SORT:
                out[d.name()] = {"sort": "bv", "n": s.size(), "value": v.as_long()}
            elif k == z3.Z3_INT_SORT:
                out[d.name()] = {"sort": "int", "value": v.as_long()}
            elif k == z3.Z3_REAL_SORT:
                if z3.is_rational_value(v):
                    out[d.name()] = {"sort": "real", "value": "%s/%s" % (v.numerator_as_long(), v.denominator_as_long())}
                else:
                    out[d.name()] = {"sort": "real", "value": str(v)}
            elif k == z3.Z3_BOOL_SORT:
                out[d.name()] = {"sort": "bool", "value": bool(z3.is_true(v))}
            else:
                out[d.name()] = {"sort": str(s), "value": str(v)}
        except Exception as e:  # pragma: no cover
            out[d.name()] = {"sort": "?", "value": str(v), "err": repr(e)}
    return out


def _solve_cli(cmd, smt2, budget_s):
    with tempfile.NamedTemporaryFile("w", suffix=".smt2", delete=False, dir=os.environ.get("VERIF_TMP", None)) as f:
        f.write(smt2)
        f.write("\n(check-sat)\n")
        path = f.name
    try:
        p = subprocess.run(cmd + [path], capture_output=True, text=True, timeout=budget_s + 5)
        out = (p.stdout or "").strip().splitlines()
        head = out[0].strip() if out else ""
        if head in ("sat", "unsat"):
            return head, None, ""
        return "unknown", None, (p.stdout + p.stderr)[-400:]
    except subprocess.TimeoutExpired:
        return "unknown", None, "timeout"
    finally:
        try:
            os.unlink(path)
        except OSError:
            pass


def _work(args):
    """Solve one obligation (runs in a pool process).  Returns (index, verdict, seconds, solver, model, out)."""
    idx, smt2, budget_s, expect, backend = args[:5]
    deadline = args[5] if len(args) > 5 else None
    t0 = time.time()
    if deadline is not None and t0 > deadline:
        # best-effort obligations (never claimed) are attempted only while the wall budget of the run lasts
        return idx, UNDECIDED, 0.0, "not-attempted", None, "not attempted: the wall budget for best-effort obligations of this run is used up"
    try:
        res, model, why = "unknown", None, ""
        solver = "z3-%s" % backend if backend != "z3" else "z3"
        if backend.startswith("cvc5"):
            res, model, why = _solve_cli(["/usr/bin/cvc5", "--fp-exp", "--tlimit=%d" % int(budget_s * 1000)], smt2, budget_s)
            solver = "cvc5-1.0.3"
        else:
            tactic = backend.split(":", 1)[1] if ":" in backend else None
            zb = budget_s
            if backend.startswith("z3+cvc5"):
                # z3 first for a short slice (it returns models), cvc5 for the rest of the budget
                zb, tactic = min(budget_s, float(tactic or 20)), None
            res, model, why = _solve_z3(smt2, zb, True, tactic)
            solver = "z3-5.1" + (":" + tactic if tactic else "")
        if res == "unknown":
            # portfolio: the other solvers, within what is left of the budget
            left = budget_s - (time.time() - t0)
            if left > 2 and not backend.startswith("cvc5") and os.path.exists("/usr/bin/cvc5") and "declare-datatypes" not in smt2:
                r2, _, w2 = _solve_cli(["/usr/bin/cvc5", "--fp-exp", "--tlimit=%d" % int(left * 1000)], smt2, left)
                if r2 in ("sat", "unsat"):
                    res, solver = r2, "cvc5-1.0.3"
                    if r2 == "sat":
                        # get the model from z3 is not possible; keep none
                        model = None
                else:
                    why += " | cvc5: " + w2[-200:]
        dt = time.time() - t0
        if res == "unsat":
            v = DISCHARGED if expect == "unsat" else REFUTED
        elif res == "sat":
            v = REFUTED if expect == "unsat" else DISCHARGED
        else:
            v = UNDECIDED
        return idx, v, dt, solver, model, why
    except Exception:
        return idx, ERROR, time.time() - t0, backend, None, traceback.format_exc()[-1500:]


def solve_all(obls, nproc=None, progress=True):
    """Discharge all obligations that carry an smt2 script; the others keep their decided verdict."""
    nproc = nproc or NPROC
    todo = []
    wall = float(os.environ.get("VERIF_BESTEFFORT_WALL", "1200"))
    deadline = time.time() + wall
    for i, o in enumerate(obls):
        if o.smt2 is not None and o.verdict is None:
            # obligations marked best-effort (meta) are never claimed and nothing claimed rests on them: they may be skipped
            skippable = (not o.claimed) and bool((o.meta or {}).get("besteffort"))
            todo.append((i, o.smt2, o.budget_s, o.expect, o.backend, deadline if skippable else None))
        elif o.verdict is None:
            o.verdict = o.decided or ERROR
            o.solver = o.solver or "decider"
    # longest budgets first so the tail is short
    todo.sort(key=lambda a: (a[5] is not None, -a[2]))  # what may be skipped comes last
    if todo:
        ctx = mp.get_context("fork")
        with ctx.Pool(min(nproc, len(todo))) as pool:
            n = 0
            for idx, v, dt, solver, model, why in pool.imap_unordered(_work, todo, chunksize=1):
                o = obls[idx]
                o.verdict, o.seconds, o.solver, o.model, o.solver_output = v, dt, solver, model, why
                n += 1
                if progress and (v != DISCHARGED or dt > 20):
                    print("  [%d/%d] %s: %s (%.1fs, %s) %s" % (n, len(todo), o.id, v, dt, solver, (why or "")[:120]), flush=True)
    return obls


# ---------------------------------------------------------------------------------------------
# known findings
# ---------------------------------------------------------------------------------------------


def load_known_findings():
    p = os.path.join(ROOT, "known_findings.json")
    if not os.path.exists(p):
        return []
    with open(p) as f:
        return json.load(f).get("findings", [])


def match_known(prop, obl_id, witness_class, findings=None):
    """A finding suppresses a refutation only if property, obligation id AND witness class all match."""
    for kf in findings if findings is not None else load_known_findings():
        if kf.get("status", "open") != "open":
            continue  # "fixed" entries suppress nothing
        if kf["property"] != prop or kf.get("witness_class") != witness_class:
            continue
        if kf.get("obligation") == obl_id or (kf.get("obligation_prefix") and obl_id.startswith(kf["obligation_prefix"])):
            return kf
    return None


# ---------------------------------------------------------------------------------------------
# reporting
# ---------------------------------------------------------------------------------------------


def _jsonable(x):
    if isinstance(x, (str, int, float, bool)) or x is None:
        return x
    if isinstance(x, Fraction):
        return str(x)
    if isinstance(x, dict):
        return {str(k): _jsonable(v) for k, v in x.items()}
    if isinstance(x, (list, tuple, set, frozenset)):
        return [_jsonable(v) for v in x]
    return repr(x)


class Report:
    """Collects the obligations of one check run and writes evidence / replay files."""

    def __init__(self, prop, tier, level="proof", checker_cmd=None):
        self.prop, self.tier, self.level = prop, tier, level
        self.t0 = time.time()
        self.obls: list[Obligation] = []
        self.trusted_base: list[str] = []
        self.assumptions: list[str] = []
        self.functions_under_contract: dict = {}
        self.bounded: list = []  # bounded stand-ins, never counted as proved
        self.notes: list[str] = []
        self.extraction_drops: list[str] = []
        self.checker_cmd = checker_cmd or "./check %s --tier %s" % (prop, tier)
        self.violations = []  # (obligation, replay_path, replayed: bool)
        self.known = []
        self.engine_errors: list[str] = []
        self.replayers = {}  # obligation-id prefix -> callable(obligation) -> dict(replayed=bool, witness_class=..., ...)

    def add(self, *obls):
        for o in obls:
            if isinstance(o, (list, tuple)):
                self.add(*o)
            else:
                self.obls.append(o)

    def trust(self, *items):
        for i in items:
            if i not in self.trusted_base:
                self.trusted_base.append(i)

    def assume(self, *items):
        for i in items:
            if i not in self.assumptions:
                self.assumptions.append(i)

    def under_contract(self, fn, clauses):
        self.functions_under_contract.setdefault(fn, [])
        for c in clauses if isinstance(clauses, (list, tuple)) else [clauses]:
            if c not in self.functions_under_contract[fn]:
                self.functions_under_contract[fn].append(c)

    # ----
    def finish(self, replay=None):
        """Solve, triage, write evidence; return the process exit code."""
        ids = {}
        for o in self.obls:
            if o.id in ids:
                self.engine_errors.append("duplicate obligation id %s" % o.id)
            ids[o.id] = o
        solve_all(self.obls)
        findings = load_known_findings()
        exit_code = 0
        claimed = [o for o in self.obls if o.claimed]
        # vacuity: every function under contract contributes at least one claimed obligation
        fn_seen = set()
        for o in claimed:
            fn_seen.update(o.functions)
        for fn in self.functions_under_contract:
            if fn not in fn_seen:
                self.engine_errors.append("vacuity: function under contract without obligation: %s" % fn)
        if not claimed:
            self.engine_errors.append("vacuity: zero claimed obligations")
        n_known = 0
        lines = []
        for o in claimed:
            if o.verdict == DISCHARGED:
                continue
            if o.verdict == REFUTED:
                if o.kind in ("cover", "canary"):
                    # a cover that is unsat / a canary that verifies = vacuous or blind engine: engine error
                    self.engine_errors.append("%s %s failed (expected %s)" % (o.kind, o.id, o.expect))
                    continue
                info = {"replayed": False, "witness_class": None}
                rp = replay or self._find_replayer(o)
                if rp is not None:
                    try:
                        info = rp(o) or info
                    except Exception:
                        info = {"replayed": False, "witness_class": None, "replay_error": traceback.format_exc()[-1500:]}
                kf = match_known(self.prop, o.id, info.get("witness_class"), findings)
                path = self._write_replay(o, info)
                if kf is not None and info.get("replayed"):
                    n_known += 1
                    self.known.append({"obligation": o.id, "witness_class": info.get("witness_class"), "what": kf.get("what")})
                    lines.append("KNOWN-FINDING: property=%s %s [%s: %s]" % (self.prop, kf.get("what"), o.id, info.get("witness_class")))
                    o.meta["known_finding"] = True
                    continue
                tail = "" if info.get("replayed") else " no-failing-input-found"
                lines.append("VIOLATION property=%s replay=%s%s" % (self.prop, path, tail))
                self.violations.append({"obligation": o.id, "replay": path, "replayed": bool(info.get("replayed"))})
                exit_code = max(exit_code, 1)
            elif o.verdict == UNDECIDED:
                lines.append("UNDECIDED: property=%s obligation=%s (%s) %s" % (self.prop, o.id, o.solver, (o.solver_output or "")[:100]))
                if exit_code == 0:
                    exit_code = 2
            else:
                self.engine_errors.append("obligation %s: %s" % (o.id, (o.solver_output or o.detail or "")))
        # a replayed or reported violation dominates undecided obligations (exit 1 whenever a VIOLATION line is printed)
        if self.violations:
            exit_code = 1
        if self.engine_errors and exit_code != 1:
            exit_code = 3
        for e in self.engine_errors:
            lines.append("ENGINE-ERROR: property=%s %s" % (self.prop, str(e)[:600]))
        self._write_evidence(exit_code)
        for ln in lines:
            print(ln)
        # bounded stand-ins are checked (a failure is a violation with its input) but never counted as proved
        bnd = [o for o in claimed if o.kind == "bounded"]
        claimed_n = len([o for o in claimed if not o.meta.get("known_finding") and o.kind != "bounded"])
        disc = len([o for o in claimed if o.verdict == DISCHARGED and o.kind != "bounded"])
        be = [o for o in self.obls if not o.claimed]
        print(
            "%s[%s]: %d/%d claimed obligations discharged; %d known finding(s); best-effort %d/%d;%s %.1fs; exit %d"
            % (self.prop, self.tier, disc, claimed_n, n_known, len([o for o in be if o.verdict == DISCHARGED]), len(be), (" bounded stand-ins %d/%d held (not proofs);" % (len([o for o in bnd if o.verdict == DISCHARGED]), len(bnd))) if bnd else "", time.time() - self.t0, exit_code)
        )
        return exit_code

    def _find_replayer(self, o):
        best = None
        for pref, fn in self.replayers.items():
            if o.id.startswith(pref) and (best is None or len(pref) > len(best[0])):
                best = (pref, fn)
        return best[1] if best else None

    def _write_replay(self, o, info):
        d = os.path.join(ROOT, "replay", self.prop)
        os.makedirs(d, exist_ok=True)
        fn = os.path.join(d, o.id.replace("/", "__").replace(" ", "_")[:180] + ".json")
        with open(fn, "w") as f:
            json.dump(
                _jsonable(
                    {
                        "property": self.prop,
                        "obligation": o.id,
                        "text": o.text,
                        "functions": list(o.functions),
                        "solver": o.solver,
                        "verdict": o.verdict,
                        "solver_output": o.solver_output,
                        "detail": o.detail,
                        "model": o.model,
                        "meta": o.meta,
                        "replay": info,
                        "smt2": (o.smt2[:20000] if o.smt2 else None),
                        "replay_cmd": "./check %s --replay %s" % (self.prop, os.path.relpath(fn, ROOT)),
                    }
                ),
                f,
                indent=1,
            )
        return os.path.relpath(fn, ROOT)

    def _write_evidence(self, exit_code):
        claimed = [o for o in self.obls if o.claimed and not o.meta.get("known_finding") and o.kind != "bounded"]
        bnd = [o for o in self.obls if o.kind == "bounded"]
        be = [o for o in self.obls if not o.claimed]
        by_solver = {}
        for o in self.obls:
            by_solver[o.solver or "?"] = by_solver.get(o.solver or "?", 0) + 1
        samples = []
        seen_kinds = set()
        for o in self.obls:
            key = (o.kind, o.id.split("/")[1] if "/" in o.id else o.id)
            if key in seen_kinds or len(samples) >= 6:
                continue
            seen_kinds.add(key)
            samples.append({"id": o.id, "text": o.text, "verdict": o.verdict, "solver": o.solver, "seconds": round(o.seconds, 3), "smt2_head": (o.smt2[:1500] if o.smt2 else None), "detail": _jsonable(o.detail) if o.smt2 is None else None})
        ev = {
            "property_id": self.prop,
            "tier": self.tier,
            "seed": SEED,
            "level": self.level,
            "coverage": {
                "obligations": len(claimed),
                "discharged": len([o for o in claimed if o.verdict == DISCHARGED]),
                "checker_cmd": self.checker_cmd,
                "trusted_base": self.trusted_base,
                "explanation": "; ".join(self.notes) or "see DESIGN.md",
                "samples": samples,
                "functions_under_contract": self.functions_under_contract,
                "obligations_by_backend": by_solver,
                "solver_seconds_total": round(sum(o.seconds for o in self.obls), 2),
                "best_effort": {"count": len(be), "discharged": len([o for o in be if o.verdict == DISCHARGED]), "undecided": [o.id for o in be if o.verdict == UNDECIDED][:200], "refuted": [o.id for o in be if o.verdict == REFUTED][:200]},
                "bounded_stand_ins": self.bounded,
                "bounded_obligations": {"count": len(bnd), "held": len([o for o in bnd if o.verdict == DISCHARGED]), "counted_as_proved": False, "ids": [o.id for o in bnd][:400]},
                "known_findings": self.known,
                "extraction_drops": self.extraction_drops,
                "vacuity": {
                    "covers": len([o for o in self.obls if o.kind == "cover"]),
                    "canaries": len([o for o in self.obls if o.kind == "canary"]),
                    "functions_with_obligations": sorted({f for o in claimed for f in o.functions}),
                },
                "per_obligation": [
                    {"id": o.id, "fn": list(o.functions), "kind": o.kind, "claimed": o.claimed, "verdict": o.verdict, "solver": o.solver, "s": round(o.seconds, 3)}
                    for o in self.obls
                ][:4000],
                "per_obligation_truncated": len(self.obls) > 4000,
                "engine_errors": self.engine_errors,
                "exit_code": exit_code,
            },
            "assumptions": self.assumptions,
            "wall_s": round(time.time() - self.t0, 2),
            "violations": len(self.violations),
        }
        if os.environ.get("VERIF_NO_EVIDENCE"):
            return  # development aid (mutation runs against scratch copies must not overwrite evidence)
        os.makedirs(os.path.join(ROOT, "evidence"), exist_ok=True)
        with open(os.path.join(ROOT, "evidence", self.prop + ".json"), "w") as f:
            json.dump(_jsonable(ev), f, indent=1)


def decided(id, prop, ok, functions=(), text="", detail=None, claimed=True, kind="vc", meta=None, solver="decider"):
    """An obligation settled by a complete non-SMT decider (ring normal form, finite table, parser)."""
    if ok is True:
        v = DISCHARGED
    elif ok is False:
        v = REFUTED
    elif ok is None:
        v = UNDECIDED
    else:
        v = ok
    o = Obligation(id=id, prop=prop, functions=tuple(functions), text=text, decided=v, detail=detail, claimed=claimed, kind=kind, meta=meta or {})
    o.solver = solver
    return o


def smt(id, prop, solver_or_script, functions=(), text="", claimed=True, budget_s=60.0, expect="unsat", kind="vc", backend="z3", meta=None):
    """An obligation from a z3 Solver (its assertions are dumped to SMT-LIB2) or a script string."""
    if isinstance(solver_or_script, str):
        script = solver_or_script
    else:
        script = solver_or_script.to_smt2()
        # to_smt2 ends with (check-sat); strip so the workers control it
        script = script.replace("(check-sat)", "")
    return Obligation(id=id, prop=prop, functions=tuple(functions), text=text, smt2=script, claimed=claimed, budget_s=budget_s, expect=expect, kind=kind, backend=backend, meta=meta or {})
