"""E4 - exact polynomial / rational-function ring with canonical forms.

`Poly`  : multivariate polynomial over Q, canonical form = dict {monomial: Fraction} without zero entries,
          monomial = tuple of (variable-name, exponent) sorted by name.  Equality of canonical forms is
          equality in Q[vars], hence (by substitution) in every commutative Q-algebra.
`Rat`   : field of fractions, (num, den) with den != 0; equality by cross-multiplication (valid because
          Q[vars] is an integral domain); no gcd is needed for a *decision*.
Python ints / Fractions are coerced.  Comparison `== 0` on a non-constant element is a *symbolic branch*:
it is answered from the current path (known non-zero factors) or raises Fork so that the driver explores
both sides (see `explore`).  Any other use of a truth value, ordering or float conversion raises
TypeError: the engine never concretises.
"""
from __future__ import annotations

from fractions import Fraction


def _mono_mul(a, b):
    if not a:
        return b
    if not b:
        return a
    d = dict(a)
    for v, e in b:
        d[v] = d.get(v, 0) + e
    return tuple(sorted(d.items()))


class Poly:
    __slots__ = ("t",)

    def __init__(self, terms=None):
        self.t = terms or {}

    @staticmethod
    def var(name):
        return Poly({((name, 1),): Fraction(1)})

    @staticmethod
    def const(c):
        c = Fraction(c)
        return Poly({(): c} if c else {})

    @staticmethod
    def coerce(x):
        if isinstance(x, Poly):
            return x
        if isinstance(x, bool):
            raise TypeError("bool in ring arithmetic")
        if isinstance(x, (int, Fraction)):
            return Poly.const(x)
        raise TypeError("cannot coerce %r to Poly" % type(x))

    def is_zero(self):
        return not self.t

    def is_const(self):
        return not self.t or (len(self.t) == 1 and () in self.t)

    def const_value(self):
        return self.t.get((), Fraction(0))

    def __add__(self, o):
        o = Poly.coerce(o)
        d = dict(self.t)
        for m, c in o.t.items():
            v = d.get(m, 0) + c
            if v:
                d[m] = v
            else:
                d.pop(m, None)
        return Poly(d)

    __radd__ = __add__

    def __neg__(self):
        return Poly({m: -c for m, c in self.t.items()})

    def __sub__(self, o):
        return self + (-Poly.coerce(o))

    def __rsub__(self, o):
        return Poly.coerce(o) + (-self)

    def __mul__(self, o):
        o = Poly.coerce(o)
        d = {}
        for m1, c1 in self.t.items():
            for m2, c2 in o.t.items():
                m = _mono_mul(m1, m2)
                v = d.get(m, 0) + c1 * c2
                if v:
                    d[m] = v
                else:
                    d.pop(m, None)
        return Poly(d)

    __rmul__ = __mul__

    def __pow__(self, n):
        assert isinstance(n, int) and n >= 0
        r = Poly.const(1)
        for _ in range(n):
            r = r * self
        return r

    def same(self, o):
        return self.t == Poly.coerce(o).t

    def vars(self):
        return sorted({v for m in self.t for v, _ in m})

    def degree_in(self, name):
        return max((e for m in self.t for v, e in m if v == name), default=0)

    def coeff_of(self, name, k):
        """coefficient (a Poly without `name`) of name**k"""
        d = {}
        for m, c in self.t.items():
            e = dict(m).get(name, 0)
            if e == k:
                d[tuple(x for x in m if x[0] != name)] = c
        return Poly(d)

    def subs(self, name, value):
        """substitute a Rat/Poly for a variable; returns Rat"""
        value = Rat.coerce(value)
        out = Rat.coerce(0)
        deg = self.degree_in(name)
        pw = Rat.coerce(1)
        for k in range(deg + 1):
            ck = self.coeff_of(name, k)
            if not ck.is_zero():
                out = out + Rat(ck, Poly.const(1)) * pw
            pw = pw * value
        return out

    def diff(self, name):
        d = {}
        for m, c in self.t.items():
            md = dict(m)
            e = md.get(name, 0)
            if e:
                if e == 1:
                    del md[name]
                else:
                    md[name] = e - 1
                mm = tuple(sorted(md.items()))
                d[mm] = d.get(mm, 0) + c * e
        return Poly({m: c for m, c in d.items() if c})

    def __repr__(self):
        if not self.t:
            return "0"
        parts = []
        for m, c in sorted(self.t.items()):
            mon = "*".join(v if e == 1 else "%s^%d" % (v, e) for v, e in m)
            parts.append(("%s*%s" % (c, mon)) if mon and c != 1 else (mon or str(c)))
        return " + ".join(parts)

    def eval(self, env):
        """value at a point env: name -> Fraction"""
        tot = Fraction(0)
        for m, c in self.t.items():
            v = c
            for name, e in m:
                v = v * env[name] ** e
            tot += v
        return tot

    def to_sympy(self, syms):
        import sympy

        e = sympy.Integer(0)
        for m, c in self.t.items():
            term = sympy.Rational(c.numerator, c.denominator)
            for v, k in m:
                term = term * syms[v] ** k
            e += term
        return e

    def __bool__(self):
        raise TypeError("truth value of a ring element")

    def __eq__(self, o):
        return Rat.coerce(self) == o

    def __ne__(self, o):
        return not (self == o)

    __hash__ = None


class Fork(Exception):
    def __init__(self, factor):
        self.factor = factor  # a Poly: undetermined irreducible factor


class Path:
    """The current path: irreducible factors assumed non-zero."""

    def __init__(self):
        self.nonzero = []  # list of Poly (canonical: made monic w.r.t. smallest monomial)

    def knows_nonzero(self, f):
        return any(f.t == g.t for g in self.nonzero)


_PATH = [None]


def _normalise(p):
    # scale so that the coefficient of the smallest monomial is 1 (a canonical representative up to units)
    m0 = min(p.t)
    c0 = p.t[m0]
    return Poly({m: c / c0 for m, c in p.t.items()})


def _factors(p):
    """irreducible factors of a non-constant Poly (via sympy.factor_list), normalised"""
    import sympy

    import sympy.core.random

    names = p.vars()
    syms = {n: sympy.Symbol(n) for n in names}
    # sympy's multivariate factorisation (Wang) draws random evaluation points; unseeded, the same polynomial took from
    # 0.01 s to more than an hour (about one run of a divmod instance in twenty never came back).  A fixed seed per call makes
    # the work a function of the polynomial only.
    sympy.core.random.seed(20240917)
    _, fl = sympy.factor_list(p.to_sympy(syms), *[syms[n] for n in names])
    out = []
    for f, _mult in fl:
        out.append(_normalise(from_sympy(f, syms)))
    return out


def from_sympy(e, syms):
    import sympy

    inv = {s: n for n, s in syms.items()}
    gens = [syms[n] for n in sorted(syms)]
    P = sympy.Poly(e, *gens)
    d = {}
    for mon, c in P.terms():
        m = tuple(sorted((inv[g], k) for g, k in zip(gens, mon) if k))
        d[m] = Fraction(int(c.p), int(c.q))
    return Poly(d)


def is_zero_test(num):
    """Decide `num == 0` for a Poly under the current path; may raise Fork."""
    if num.is_zero():
        return True
    if num.is_const():
        return False
    path = _PATH[0]
    if path is None:
        raise TypeError("symbolic zero test outside explore(): %r" % (num,))
    for f in _factors(num):
        if not path.knows_nonzero(f):
            raise Fork(f)
    return False


class Rat:
    __slots__ = ("n", "d")

    def __init__(self, n, d=None):
        self.n = Poly.coerce(n)
        self.d = Poly.const(1) if d is None else Poly.coerce(d)
        if self.d.is_zero():
            raise ZeroDivisionError("ring: division by the zero polynomial")
        if self.d.is_const() and self.d.const_value() != 1:
            c = self.d.const_value()
            self.n = Poly({m: v / c for m, v in self.n.t.items()})
            self.d = Poly.const(1)

    @staticmethod
    def coerce(x):
        if isinstance(x, Rat):
            return x
        return Rat(Poly.coerce(x))

    @staticmethod
    def var(name):
        return Rat(Poly.var(name))

    def __add__(self, o):
        o = Rat.coerce(o)
        if self.d.t == o.d.t:
            return Rat(self.n + o.n, self.d)
        return Rat(self.n * o.d + o.n * self.d, self.d * o.d)

    __radd__ = __add__

    def __neg__(self):
        return Rat(-self.n, self.d)

    def __pos__(self):
        return self

    def __sub__(self, o):
        return self + (-Rat.coerce(o))

    def __rsub__(self, o):
        return Rat.coerce(o) + (-self)

    def __mul__(self, o):
        o = Rat.coerce(o)
        return Rat(self.n * o.n, self.d * o.d)

    __rmul__ = __mul__

    def __truediv__(self, o):
        o = Rat.coerce(o)
        # dividing by an element that may vanish is only defined where it does not: the zero test forks
        if is_zero_test(o.n):
            raise ZeroDivisionError("ring: division by zero on this path")
        return Rat(self.n * o.d, self.d * o.n)

    def __rtruediv__(self, o):
        return Rat.coerce(o) / self

    def __pow__(self, k):
        assert isinstance(k, int)
        if k < 0:
            return (Rat.coerce(1) / self) ** (-k)
        return Rat(self.n**k, self.d**k)

    def same(self, o):
        o = Rat.coerce(o)
        return (self.n * o.d).t == (o.n * self.d).t

    def eval(self, env):
        return self.n.eval(env) / self.d.eval(env)

    def __eq__(self, o):
        if isinstance(o, (Rat, Poly, int, Fraction)) and not isinstance(o, bool):
            o = Rat.coerce(o)
            return is_zero_test(self.n * o.d - o.n * self.d)
        return NotImplemented

    def __ne__(self, o):
        r = self.__eq__(o)
        return r if r is NotImplemented else not r

    __hash__ = None

    def __bool__(self):
        raise TypeError("truth value of a ring element")

    def __float__(self):
        raise TypeError("float() of a ring element")

    def __repr__(self):
        return "(%r)/(%r)" % (self.n, self.d) if not (self.d.is_const()) else repr(self.n)


def V(name):
    return Rat.var(name)


def explore(run, inputs, max_paths=20000):
    """Run `run(inputs_substituted, path)` over every path of symbolic zero tests.

    `inputs` is a dict name -> Rat (initially the generators).  On Fork(f) two children are explored:
    f != 0 (f added to the path) and f == 0 (a generator occurring linearly in f with a coefficient that is
    a product of known-non-zero factors is eliminated by substitution into the inputs, and the run restarts).
    Yields (inputs, path, result) for each completed path.  Raises NotLinear if f == 0 cannot be
    parametrised that way (then the caller reports 'outside the subset', never a verdict).
    """
    stack = [(dict(inputs), [])]
    n = 0
    while stack:
        inp, nz = stack.pop()
        n += 1
        if n > max_paths:
            raise RuntimeError("path explosion")
        path = Path()
        path.nonzero = list(nz)
        _PATH[0] = path
        try:
            res = run(inp, path)
        except Fork as fk:
            f = fk.factor
            _PATH[0] = None
            stack.append((inp, nz + [f]))
            sub = _solve_linear(f, path)
            if sub is None:
                raise NotLinear(f)
            name, val = sub
            new_inp = {k: _subs_rat(v, name, val) for k, v in inp.items()}
            stack.append((new_inp, nz))
            continue
        finally:
            _PATH[0] = None
        yield inp, path, res


class NotLinear(Exception):
    pass


def _subs_rat(r, name, val):
    r = Rat.coerce(r)
    a = r.n.subs(name, val)
    b = r.d.subs(name, val)
    if b.n.is_zero():
        raise ZeroDivisionError("ring: substitution makes a denominator vanish identically")
    return Rat(a.n * b.d, a.d * b.n)


def _solve_linear(f, path):
    """f == 0  ->  (name, value) with f linear in `name` and the coefficient provably non-zero on the path."""
    for name in reversed(f.vars()):
        if f.degree_in(name) != 1:
            continue
        a = f.coeff_of(name, 1)
        b = f.coeff_of(name, 0)
        if a.is_const():
            return name, Rat(-b, a)
        try:
            ok = all(path.knows_nonzero(g) for g in _factors(a))
        except Exception:
            ok = False
        if ok:
            return name, Rat(-b, a)
    return None
