"""E1 - symfp: real floating-point building blocks on symbolic floats, exactness by rounding-mode agreement.

The real functions (floating_point_algorithms.*, utils.*, algorithms.*, apmath.*) are executed on symrun.SymFP
operands; every rounded arithmetic operation is logged.  For each logged operation

    exact(op) :=  fp.eq( op(RTP, a, b), op(RTN, a, b) )      (round-up and round-down agree <=> no rounding error)

is an SMT obligation `pre AND path AND NOT exact(op)`:  unsat = the operation never rounds on the domain.
The postcondition of an error-free transformation (s + t = x + y, xh + xl = x, h + l = x*y) is then an identity
of exact real arithmetic: operations proved exact are ring operations, every other operation is an arbitrary
(fresh) value; the identity is decided by canonical forms (vf/ring.py).  A `select` forks the path.
"""
from __future__ import annotations

import numpy
import z3

from vf import ring, symrun
from vf.symrun import FMT, SymBool, SymFP

RTP, RTN, RNE = z3.RTP(), z3.RTN(), z3.RNE()
OPS = dict(fpAdd=z3.fpAdd, fpSub=z3.fpSub, fpMul=z3.fpMul, fpDiv=z3.fpDiv)


def exact_formula(name, a, b):
    f = OPS[name]
    return z3.fpEQ(f(RTP, a, b), f(RTN, a, b))


def finite(e):
    return z3.Not(z3.Or(z3.fpIsInf(e), z3.fpIsNaN(e)))


_CTX_CLASS = []


def sym_ctx_class():
    if _CTX_CLASS:
        return _CTX_CLASS[0]
    import functional_algorithms.utils as U

    class SymCtx(U.NumpyContext):
        """NumpyContext whose value-inspecting methods accept symbolic scalars.  select forks the path."""

        def __init__(self, t, wrap_constants=False):
            super().__init__(default_constant_type=t)
            self._t = t
            self._wrap = wrap_constants

        def _lift(self, v):
            if self._wrap and isinstance(v, (numpy.floating, float, int)) and not isinstance(v, bool):
                return SymFP(symrun.fpval(v, FMT[self._t]), self._t)
            return v

        def select(self, cond, x, y):
            if isinstance(cond, SymBool):
                return x if bool(cond) else y
            if isinstance(cond, (bool, numpy.bool_)):
                return x if cond else y
            raise symrun.Unsupported("select on %r" % type(cond))

        def constant(self, value, like=None):
            if isinstance(value, symrun.Sym):
                return value
            if isinstance(like, SymFP):
                like = like.t(0)
            elif isinstance(like, symrun.Sym):
                raise symrun.Unsupported("constant like %r" % type(like))
            return self._lift(super().constant(value, like))

        def ne(self, x, y):
            return x != y

        def eq(self, x, y):
            return x == y

        def lt(self, x, y):
            return x < y

        def le(self, x, y):
            return x <= y

        def gt(self, x, y):
            return x > y

        def ge(self, x, y):
            return x >= y

        def logical_and(self, a, b):
            if isinstance(a, SymBool) or isinstance(b, SymBool):
                return (a if isinstance(a, SymBool) else SymBool(z3.BoolVal(bool(a)))) & b
            return a and b

        def logical_or(self, a, b):
            if isinstance(a, SymBool) or isinstance(b, SymBool):
                return (a if isinstance(a, SymBool) else SymBool(z3.BoolVal(bool(a)))) | b
            return a or b

        def logical_not(self, a):
            if isinstance(a, SymBool):
                return ~a
            return not a

        def _is_nonzero(self, v):
            if isinstance(v, SymFP):
                return ~(v == 0)
            return super()._is_nonzero(v)

    _CTX_CLASS.append(SymCtx)
    return SymCtx


# --------------------------------------------------------------------------------------------- real identity
def to_ring(expr, exact_ids, inputs, gens):
    """z3 FP term -> ring element.  Arithmetic nodes whose id is in `exact_ids` are exact ring operations; every other
    arithmetic node is an arbitrary value (a generator named after its z3 id)."""
    memo = {}

    def go(e):
        k = e.get_id()
        if k in memo:
            return memo[k]
        r = _go(e)
        memo[k] = r
        return r

    def _go(e):
        dk = e.decl().kind()
        if z3.is_fp_value(e) or dk in (z3.Z3_OP_FPA_NUM, z3.Z3_OP_FPA_PLUS_ZERO, z3.Z3_OP_FPA_MINUS_ZERO):
            from fractions import Fraction

            if e.isNaN() or e.isInf():
                raise symrun.Unsupported("non-finite constant in an exact identity")
            if e.isZero():
                return ring.Rat.coerce(0)
            sig, exp = Fraction(e.significand_as_long(), 1 << (e.sbits() - 1)), e.exponent_as_long(False)
            v = sig * (Fraction(2) ** exp)
            return ring.Rat.coerce(-v if e.sign() else v)
        if dk == z3.Z3_OP_UNINTERPRETED and e.num_args() == 0:
            name = e.decl().name()
            if name not in inputs:
                raise symrun.Unsupported("free FP variable %s" % name)
            return ring.V(name)
        if dk == z3.Z3_OP_FPA_NEG:
            return -go(e.arg(0))
        if dk == z3.Z3_OP_FPA_TO_FP:
            sv = z3.simplify(e)
            if z3.is_fp_value(sv):
                return _go(sv)
            raise symrun.Unsupported("non-constant conversion in an exact identity")
        if dk in (z3.Z3_OP_FPA_ADD, z3.Z3_OP_FPA_SUB, z3.Z3_OP_FPA_MUL):
            if e.get_id() not in exact_ids:
                if e.get_id() not in gens:
                    gens[e.get_id()] = "r%d" % len(gens)
                return ring.V(gens[e.get_id()])
            a, b = go(e.arg(1)), go(e.arg(2))
            return a + b if dk == z3.Z3_OP_FPA_ADD else (a - b if dk == z3.Z3_OP_FPA_SUB else a * b)
        if dk == z3.Z3_OP_FPA_TO_FP:
            # fpBVToFP of a numeral etc.
            s = z3.simplify(e)
            if z3.is_fp_value(s):
                return _go(s)
        raise symrun.Unsupported("term %s in an exact identity" % e.decl().name())

    return go(expr)
