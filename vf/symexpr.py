"""E3 - symexpr: the REAL rewriter / inference code on abstract expressions with holes.

An abstract input is a real `Expr` built by the real constructor in a fresh real `Context`; its frontier
leaves are `Hole`s - instances of a subclass of Expr that are never registered.  Reading `hole.kind` (or
`.operands`) of an undecided hole raises NeedShape: the driver re-runs the function once for every admissible
refinement of that hole (opaque leaf; constant of every payload class of the pass; every kind of the relevant
universe with fresh, possibly aliased, sub-holes) - lazy shape refinement, exhaustive to exactly the depth the
code inspects.  Inference queries on a hole (`_is_nonnegative` ...) fork over True / False / None and record the
CONTRACT of the answer as a hypothesis on the hole's value (the induction hypothesis; discharged by the
obligation on the inference method itself).  Key order between holes forks both ways.  Numeric constant payloads
are symbolic (a Real, or an SMT float of the pass's format).

Instrumentation is by module attributes (the functions' own global namespaces): `isinstance, abs, min, max, bool,
float, int, math, numpy` are shadowed in functional_algorithms.expr / .rewrite; the *_types tuples are extended
with the symbolic payload classes.  No code object is modified.
"""
from __future__ import annotations

import builtins
import itertools
import math as _math
import types

import numpy
import z3

from vf import symrun
from vf.symrun import SymBool, SymFP, Unsupported

# ---------------------------------------------------------------------------------------------
# typing of kinds (well-typed programs only): operand type classes -> result type class
# 'F' numeric (real float of the pass), 'B' boolean
# ---------------------------------------------------------------------------------------------
UNARY_F = "negative positive absolute sqrt square sign floor ceil round truncate asin acos atan asinh acosh atanh sin cos tan sinh cosh tanh log log1p log2 log10 exp expm1 exp2 asin_acos_kernel".split()
BINARY_F = "add subtract multiply divide minimum maximum hypot atan2 pow remainder copysign".split()
COMPARE = "lt le gt ge eq ne".split()
SIG = {}
for _k in UNARY_F:
    SIG[_k] = (("F",), "F")
for _k in BINARY_F:
    SIG[_k] = (("F", "F"), "F")
for _k in COMPARE:
    SIG[_k] = (("F", "F"), "B")
for _k in ("logical_and", "logical_or", "logical_xor"):
    SIG[_k] = (("B", "B"), "B")
SIG["logical_not"] = (("B",), "B")
SIG["is_finite"] = (("F",), "B")
SIG["select"] = None  # (B, T, T) -> T, handled specially
SIG["upcast"] = (("F",), "F")
SIG["downcast"] = (("F",), "F")


class NeedShape(Exception):
    def __init__(self, hole):
        self.hole = hole


class Rerun(Exception):
    """a decision was added that changes how the input is built: run again with the same decisions"""


class KindProxy(str):
    """the kind of an undecided hole.  `== literal` forks two ways (is / is not that kind) instead of enumerating
    every kind; anything that needs the actual string (hashing for set/dict membership) falls back to the full
    refinement of the hole."""

    def __new__(cls, hole):
        obj = str.__new__(cls, "<undecided>")
        obj.hole = hole
        return obj

    def __eq__(self, other):
        if isinstance(other, KindProxy):
            raise NeedShape(self.hole)
        if not isinstance(other, str):
            return False
        return kind_test(self.hole, other)

    def __ne__(self, other):
        return not self.__eq__(other)

    def __hash__(self):
        raise NeedShape(self.hole)

    def __str__(self):
        raise NeedShape(self.hole)

    def __format__(self, spec):
        raise NeedShape(self.hole)


def kind_test(h, literal):
    w = world()
    if literal in h._excluded:
        return False
    groups = {}
    for alt in alternatives(w, h):
        g = "constant" if alt[0] in ("const", "named") else (alt[1] if alt[0] == "kind" else None)
        if g is not None:
            groups.setdefault(g, []).append(alt)
    if literal not in groups:
        return False  # no well-typed expression of that kind can stand here
    yes = w.choose(("kindis", h.hid, literal), [False, True])
    if not yes:
        h._excluded.add(literal)
        w.trace.append("h%s!=%s" % (h.hid, literal))
        return False
    alts = groups[literal]
    alt = alts[0] if len(alts) == 1 else w.choose(("kindalt", h.hid, literal), alts)
    w.dec[("shape", h.hid)] = alt
    _forget_knowledge(w.dec, h.hid)
    for d in w.new:
        pass
    raise Rerun()


def _forget_knowledge(dec, hid):
    """once a hole is refined, what was assumed about it as an opaque expression is moot: the REAL inference of the
    refined node answers in the re-run"""
    for k in [k for k in dec if isinstance(k, tuple) and k[0] == "know" and k[1] == "h" + hid]:
        del dec[k]


class Prune(Exception):
    """contradictory hypotheses / alternative not admissible (e.g. constant not in normal form)"""


# ---------------------------------------------------------------------------------------------
# symbolic payloads
# ---------------------------------------------------------------------------------------------
class SymReal(symrun.Sym):
    """an exact real number standing for a Python float / int payload in the Real pass"""

    __slots__ = ("e", "cls")

    def __init__(self, e, cls=float):
        self.e, self.cls = e, cls

    def __hash__(self):
        # identity hash: a payload object is registered (hash-consed) as itself; dict lookups find it by identity
        return id(self)

    @staticmethod
    def co(o):
        if isinstance(o, SymReal):
            return o.e
        if isinstance(o, bool):
            return z3.RealVal(int(o))
        if isinstance(o, (int, float)):
            if isinstance(o, float) and (o != o or o in (float("inf"), float("-inf"))):
                raise Unsupported("non-finite literal in Real pass")
            from fractions import Fraction

            f = Fraction(o)
            return z3.RealVal(f.numerator) / z3.RealVal(f.denominator)
        return None

    def _ar(self, o, f, swap=False):
        b = SymReal.co(o)
        if b is None:
            return NotImplemented
        a = self.e
        if swap:
            a, b = b, a
        return SymReal(f(a, b), self.cls)

    def __add__(self, o):
        return self._ar(o, lambda a, b: a + b)

    def __radd__(self, o):
        return self._ar(o, lambda a, b: a + b, True)

    def __sub__(self, o):
        return self._ar(o, lambda a, b: a - b)

    def __rsub__(self, o):
        return self._ar(o, lambda a, b: a - b, True)

    def __mul__(self, o):
        return self._ar(o, lambda a, b: a * b)

    def __rmul__(self, o):
        return self._ar(o, lambda a, b: a * b, True)

    def __truediv__(self, o):
        b = SymReal.co(o)
        if b is None:
            return NotImplemented
        if symrun.eng().branch(b == 0):
            raise ZeroDivisionError("float division by zero")
        return SymReal(self.e / b, self.cls)

    def __neg__(self):
        return SymReal(-self.e, self.cls)

    def __pos__(self):
        return self

    def __abs__(self):
        return SymReal(z3.If(self.e >= 0, self.e, -self.e), self.cls)

    def _cmp(self, o, f):
        b = SymReal.co(o)
        if b is None:
            return NotImplemented
        return SymBool(f(self.e, b))

    def __lt__(self, o):
        return self._cmp(o, lambda a, b: a < b)

    def __le__(self, o):
        return self._cmp(o, lambda a, b: a <= b)

    def __gt__(self, o):
        return self._cmp(o, lambda a, b: a > b)

    def __ge__(self, o):
        return self._cmp(o, lambda a, b: a >= b)

    def __eq__(self, o):
        return self._cmp(o, lambda a, b: a == b)

    def __ne__(self, o):
        return self._cmp(o, lambda a, b: a != b)

    def __bool__(self):
        return symrun.eng().branch(self.e != 0)

    def __float__(self):
        raise Unsupported("float() of a symbolic payload (would concretise)")

    def conjugate(self):
        return self


def payload_real(v):
    if isinstance(v, SymReal):
        return v.e
    if isinstance(v, bool):
        return z3.BoolVal(v)
    if isinstance(v, (int, float, numpy.floating, numpy.integer)):
        r = SymReal.co(float(v) if isinstance(v, numpy.floating) else (int(v) if isinstance(v, numpy.integer) else v))
        return r
    if isinstance(v, SymBool):
        return v.e
    raise Unsupported("payload %r in Real semantics" % (type(v),))


def payload_fp(v, sem):
    if isinstance(v, SymFP):
        if symrun.FMT[v.t] != (sem.eb, sem.sb):
            return z3.fpFPToFP(z3.RNE(), v.e, sem.S)
        return v.e
    if isinstance(v, bool):
        return z3.BoolVal(v)
    if isinstance(v, SymBool):
        return v.e
    if isinstance(v, (int, float, numpy.floating, numpy.integer)):
        return sem.cval(v)
    raise Unsupported("payload %r in FP semantics" % (type(v),))


# ---------------------------------------------------------------------------------------------
# in-place shadows of the repository modules' global names
# ---------------------------------------------------------------------------------------------
class _MathProxy:
    def __getattr__(self, name):
        real = getattr(_math, name)
        if not callable(real):
            return real

        def f(*a):
            if any(isinstance(x, symrun.Sym) for x in a):
                return _math_model(name, *a)
            return real(*a)

        return f


def _math_model(name, *a):
    x = a[0]
    if name == "isfinite":
        if isinstance(x, SymReal):
            return True
        if isinstance(x, SymFP):
            return SymBool(z3.Not(z3.Or(z3.fpIsInf(x.e), z3.fpIsNaN(x.e))))
    if name == "isinf":
        if isinstance(x, SymReal):
            return False
        if isinstance(x, SymFP):
            return SymBool(z3.fpIsInf(x.e))
    if name == "isnan":
        if isinstance(x, SymReal):
            return False
        if isinstance(x, SymFP):
            return SymBool(z3.fpIsNaN(x.e))
    if name == "sqrt":
        if isinstance(x, SymReal):
            e = symrun.eng()
            if e.branch(x.e < 0):
                raise ValueError("math domain error")
            r = z3.Real(e.fresh_name("sqrt"))
            e.assume_fact(z3.And(r >= 0, r * r == x.e))
            return SymReal(r, x.cls)
        if isinstance(x, SymFP):
            e = symrun.eng()
            if e.branch(z3.fpLT(x.e, symrun.fpval(0.0, x.fmt))):
                raise ValueError("math domain error")
            return SymFP(z3.fpSqrt(z3.RNE(), x.e), x.t)
    raise Unsupported("math.%s on a symbolic payload" % name)


def _np_model_sqrt(x):
    if isinstance(x, SymFP):
        return SymFP(z3.fpSqrt(z3.RNE(), x.e), x.t)
    raise Unsupported("numpy.sqrt(%r)" % type(x))


def _np_model_square(x):
    if isinstance(x, SymFP):
        return SymFP(z3.fpMul(z3.RNE(), x.e, x.e), x.t)
    raise Unsupported("numpy.square(%r)" % type(x))


def _min(*a, **kw):
    if any(isinstance(x, symrun.Sym) for x in a):
        if len(a) != 2 or kw:
            raise Unsupported("min with %d args" % len(a))
        x, y = a
        return y if bool(y < x) else x  # CPython's min: keeps the first unless a later one is smaller
    return builtins.min(*a, **kw)


def _max(*a, **kw):
    if any(isinstance(x, symrun.Sym) for x in a):
        if len(a) != 2 or kw:
            raise Unsupported("max with %d args" % len(a))
        x, y = a
        return y if bool(y > x) else x
    return builtins.max(*a, **kw)


def _float(x=0.0):
    if isinstance(x, SymReal):
        return SymReal(x.e, float)
    if isinstance(x, SymFP):
        if x.t is float:
            return x
        return SymFP(z3.fpFPToFP(z3.RNE(), x.e, z3.FPSort(11, 53)), float)
    if isinstance(x, symrun.Sym):
        raise Unsupported("float(%s)" % type(x).__name__)
    return builtins.float(x)


def _isinstance(obj, cls):
    if isinstance(obj, SymReal):
        classes = cls if isinstance(cls, tuple) else (cls,)
        for c in classes:
            if isinstance(c, tuple):
                if _isinstance(obj, c):
                    return True
            else:
                c = symrun._unshadow(c)
                if c is SymReal or (isinstance(c, type) and issubclass(obj.cls, c)):
                    return True
        return False
    if isinstance(obj, SymFP):
        classes = cls if isinstance(cls, tuple) else (cls,)
        for c in classes:
            if isinstance(c, tuple):
                if _isinstance(obj, c):
                    return True
            elif isinstance(c, symrun.SymDType):
                if c.t is obj.t:
                    return True
            else:
                c = symrun._unshadow(c)
                if c is SymFP or (isinstance(c, type) and issubclass(obj.t, c)):
                    return True
        return False
    if isinstance(cls, symrun.SymDType):
        return builtins.isinstance(obj, cls.t)
    return symrun._isinstance(obj, cls)


class TableProxy(dict):
    """the relational tables are dicts keyed by (value, value/prop); a lookup with a SYMBOLIC numeric payload must
    consider every numeric key it may equal (dict lookup = hash + ==): fork on equality with each numeric key"""

    def get(self, key, default=None):
        if isinstance(key, tuple) and any(isinstance(k, symrun.Sym) for k in key):
            for cand in self.keys():
                ok = True
                for k, c in zip(key, cand):
                    if isinstance(k, symrun.Sym):
                        if isinstance(c, str):
                            ok = False
                            break
                        if not bool(k == c):
                            ok = False
                            break
                    elif isinstance(k, str) != isinstance(c, str) or k != c:
                        ok = False
                        break
                if ok:
                    return dict.get(self, cand)
            return default
        return dict.get(self, key, default)


_PATCHED = []
SymFP.__hash__ = lambda self: id(self)


def nodesig(e):
    """refinement-stable structural name of a node (used to key forked inference answers)"""
    if getattr(e, "_vf_leaf", False):
        return "h" + e.hid
    if e.kind == "symbol":
        return "s:" + str(e.operands[0])
    if e.kind == "constant":
        v = e.operands[0]
        if isinstance(v, (SymReal, SymFP)):
            return "c:" + str(v.e)
        return "c:" + repr(v)
    return e.kind + "(" + ",".join(nodesig(o) for o in e.operands) + ")"


SIGNSETS = {
    "zero": {"z"},
    "nonzero": {"n", "p"},
    "positive": {"p"},
    "negative": {"n"},
    "nonpositive": {"n", "z"},
    "nonnegative": {"z", "p"},
}
SIGN_CLASSES = ["nzp", "n", "z", "p", "nz", "zp"]
KNOWLEDGE = [(frozenset(k), f) for k in ("nzp", "n", "z", "p", "nz", "zp", "np") for f in (False, True)]


def _knowledge_formula(K, v, w):
    signs, fin = K
    parts = []
    if signs != frozenset("nzp"):
        alts = []
        if "n" in signs:
            alts.append(PROP_FORMULA["negative"](v, w))
        if "z" in signs:
            alts.append(PROP_FORMULA["zero"](v, w))
        if "p" in signs:
            alts.append(PROP_FORMULA["positive"](v, w))
        parts.append(z3.Or(alts))
    if fin:
        parts.append(PROP_FORMULA["finite"](v, w))
    return z3.And(parts) if parts else z3.BoolVal(True)


def _answer_from_knowledge(K, prop):
    signs, fin = K
    if prop == "finite":
        return True if fin else None
    if prop == "one":
        return False if "p" not in signs else None
    ps = SIGNSETS[prop]
    if signs <= ps:
        return True
    if not (signs & ps):
        return False
    return None


def _knowledge(w, name, value_thunk, prop):
    """what sign/finiteness inference `knows` about a node.  Forked lazily and in stages: the sign class (6) at the
    first sign query, `non-zero` (2) only when zero/nonzero is asked of an otherwise unknown sign, finiteness (2)
    only when `finite` is asked.  The answers to all properties are the strongest ones that knowledge supports
    (each fold of the rules is justified by the facts of the matched properties; the table rows themselves are
    discharged with minimal hypotheses separately)."""
    st = w.answers.setdefault(("know", name), {})
    if "v" not in st:
        st["v"] = value_thunk()
    v = st["v"]
    if v is None or z3.is_bool(v):
        return (frozenset("nzp"), False)

    def commit(formula, label):
        w.hyps.append(formula)
        w.trace.append("%s~%s" % (name, label))
        _check_consistent(w)

    if prop == "finite":
        if "fin" not in st:
            st["fin"] = w.choose(("know", name, "fin"), [False, True])
            if st["fin"]:
                commit(PROP_FORMULA["finite"](v, w), "f")
        return (frozenset("nzp"), st["fin"])
    if "sign" not in st:
        c = w.choose(("know", name, "sign"), SIGN_CLASSES)
        st["sign"] = frozenset(c)
        if c != "nzp":
            commit(_knowledge_formula((st["sign"], False), v, w), c)
    signs = st["sign"]
    if prop in ("zero", "nonzero", "one") and signs == frozenset("nzp"):
        if "nz" not in st:
            st["nz"] = w.choose(("know", name, "nz"), [False, True])
            if st["nz"]:
                commit(PROP_FORMULA["nonzero"](v, w), "np")
        if st["nz"]:
            signs = frozenset("np")
    return (signs, st.get("fin", False))


def _contract_answer(w, node, prop):
    def val():
        try:
            sem = w.make_sem()
            v, _d = sem.collect(node)
            w.hyps.extend(sem.axioms)
            return v
        except Exception:
            return None

    return _answer_from_knowledge(_knowledge(w, nodesig(node), val, prop), prop)


def _contract_answer_old(w, node, prop):
    """the callee contract of Expr._is_<prop>: any of None / True / False such that True => P([[node]]),
    False => not P([[node]])  (discharged separately by the inference obligations)"""
    key = ("is", nodesig(node), prop)
    if key in w.answers:
        return w.answers[key]
    try:
        sem = w.make_sem()
        v, _d = sem.collect(node)
    except Exception:
        w.answers[key] = None
        return None
    if z3.is_bool(v):
        w.answers[key] = None
        return None
    a = w.choose(key, [None, True, False])
    w.answers[key] = a
    if a is not None:
        P = PROP_FORMULA[prop](v, w)
        w.hyps.append(P if a else z3.Not(P))
        w.hyps.extend(sem.axioms)
        w.trace.append("%s.%s=%s" % (nodesig(node), prop, a))
        _check_consistent(w)
    return a


def _patch_inference(E):
    for prop in ("zero", "one", "nonzero", "finite", "nonnegative", "nonpositive", "positive", "negative"):
        name = "_is_" + prop
        orig = vars(E.Expr)[name]

        def getter(self, prop=prop, orig=orig):
            w = World.cur
            if w is None or w.real_infer_node is self:
                return orig.fget(self)
            return _contract_answer(w, self, prop)

        setattr(E.Expr, name, property(getter))
        _PATCHED.append(("Expr", name))


def install():
    """shadow the global names of the repository modules that the rewriter / inference code reads"""
    if _PATCHED:
        return
    # inference on refined (real) nodes runs the real code; holes answer by contract (Hole._answer)
    import functional_algorithms.expr as E
    import functional_algorithms.rewrite as R
    import functional_algorithms.utils as U

    symrun.FMT.setdefault(float, (11, 53))
    npx = symrun._NumpyShadow()
    symrun._NP_MODELS.setdefault("sqrt", _np_model_sqrt)
    symrun._NP_MODELS.setdefault("square", _np_model_square)
    for mod in (E, R):
        for name, val in (("isinstance", _isinstance), ("abs", symrun._abs), ("min", _min), ("max", _max), ("bool", symrun.type_shadow(builtins.bool, symrun._bool)), ("float", symrun.type_shadow(builtins.float, _float)), ("math", _MathProxy()), ("numpy", npx)):
            if name in ("math", "numpy") and not hasattr(mod, name):
                continue
            setattr(mod, name, val)
            _PATCHED.append((mod.__name__, name))
        for tabname in ("_constant_relop_constant", "_constant_relop_any", "_any_relop_any"):
            if hasattr(mod, tabname) and not isinstance(getattr(mod, tabname), TableProxy):
                setattr(mod, tabname, TableProxy(getattr(mod, tabname)))
                _PATCHED.append((mod.__name__, tabname))
        for tname in ("value_types", "number_types", "float_types"):
            if hasattr(mod, tname):
                setattr(mod, tname, tuple(getattr(mod, tname)) + (SymReal, SymFP))
                _PATCHED.append((mod.__name__, tname))


SHADOW_DOC = [
    "module-global names shadowed in functional_algorithms.expr / .rewrite: isinstance, abs, min, max, bool, float, math, numpy (identical to the originals on concrete arguments; models on symbolic payloads)",
    "value_types / number_types / float_types extended with the symbolic payload classes",
    "min/max of two symbolic payloads follow CPython (first argument kept unless the second is strictly smaller/larger)",
    "math.sqrt / numpy.sqrt / numpy.square on payloads: exact real sqrt (defining constraint) resp. IEEE RNE in the pass's format",
]


# ---------------------------------------------------------------------------------------------
# world: one exploration state (decisions) ; holes
# ---------------------------------------------------------------------------------------------
class World:
    cur = None
    defaults = {}  # key -> default (first) alternative: entries equal to it are equivalent to absent entries

    def __init__(self, decisions, mode, universe, consts_named=(), allow_alias=True):
        self.dec = dict(decisions)  # semantic key -> choice
        self.defaulted = set()
        self.new = []  # alternative decision dicts discovered during this run
        self.mode = mode  # "real" | "fp32" | "fp64py" | "fp16"
        self.universe = universe  # dict type class -> list of kinds
        self.consts_named = list(consts_named)
        self.allow_alias = allow_alias
        self.holes = []
        self.byid = {}
        self.answers = {}
        self.real_infer_node = None  # the one node whose REAL inference code runs (inference obligations)
        self.make_sem = None
        self.hyps = []  # z3 hypotheses (contracts of inference answers, payload facts)
        self.ctx = None
        self.trace = []  # human-readable decisions

    def choose(self, key, alternatives):
        """alternatives: list of hashable labels"""
        if key in self.dec:
            return self.dec[key]
        # the default (first) alternative is NOT recorded: a decision dict holds only non-default choices, so two
        # dicts that differ in dead default decisions are the same dict (no duplicate paths)
        first = alternatives[0]
        for alt in alternatives[1:]:
            d = dict(self.dec)
            d[key] = alt
            self.new.append(d)
        self.dec[key] = first
        World.defaults[key] = first
        return first

    # ---- typing of the pass
    def float_type(self):
        from functional_algorithms.typesystem import Type

        bits = {"real": None, "fp64py": None, "fp32": 32, "fp16": 16, "fp64": 64}[self.mode]
        return Type(self.ctx, "float", bits)

    def bool_type(self):
        from functional_algorithms.typesystem import Type

        return Type(self.ctx, "boolean", None) if False else Type.fromobject(self.ctx, "boolean")

    def fmt(self):
        return {"fp32": (8, 24), "fp16": (5, 11), "fp64": (11, 53), "fp64py": (11, 53), "real": None}[self.mode]

    def payload_class(self):
        return {"fp32": numpy.float32, "fp16": numpy.float16, "fp64": numpy.float64, "fp64py": float, "real": float}[self.mode]

    def value_var(self, hole):
        name = "v%s" % hole.hid
        if hole.ty == "B":
            return z3.Bool(name)
        if self.mode == "real":
            return z3.Real(name)
        return z3.FP(name, z3.FPSort(*self.fmt()))


def world():
    if World.cur is None:
        raise Unsupported("hole used outside a world")
    return World.cur


def _expr_base():
    from functional_algorithms.expr import Expr

    return Expr


_HOLE_CLASS = []


def hole_class():
    """class Hole(Expr) - created lazily so that the repository is imported from the tree under verification"""
    if _HOLE_CLASS:
        return _HOLE_CLASS[0]
    Expr = _expr_base()

    class ForkKey:
        __slots__ = ("hid",)

        def __init__(self, hid):
            self.hid = hid

        def __hash__(self):
            return hash(("hole", self.hid))

        def __eq__(self, o):
            return isinstance(o, ForkKey) and o.hid == self.hid

        def __ne__(self, o):
            return not self.__eq__(o)

        def _order(self, o):
            if not isinstance(o, ForkKey):
                # against a concrete key component: either order
                w = world()
                c = w.choose(("order", self.hid, repr(o)[:40]), ["lt", "gt"])
                t = "key(h%s)%s%s" % (self.hid, "<" if c == "lt" else ">", repr(o)[:24])
                if t not in w.trace:
                    w.trace.append(t)
                return c
            a, b = self.hid, o.hid
            if a == b:
                return "eq"
            w = world()
            lo, hi = builtins.min(a, b), builtins.max(a, b)
            first = True
            c = w.choose(("order", lo, hi), ["lt", "gt"])  # lo < hi or lo > hi
            if first or ("key(h%s)%skey(h%s)" % (lo, "<" if c == "lt" else ">", hi)) not in w.trace:
                w.trace.append("key(h%s)%skey(h%s)" % (lo, "<" if c == "lt" else ">", hi))
            return c if a == lo else {"lt": "gt", "gt": "lt"}[c]

        def __lt__(self, o):
            return self._order(o) == "lt"

        def __gt__(self, o):
            return self._order(o) == "gt"

        def __le__(self, o):
            return self._order(o) in ("lt", "eq")

        def __ge__(self, o):
            return self._order(o) in ("gt", "eq")

    class Hole(Expr):
        _vf_leaf = True

        def __new__(cls, w, ty, hid):
            obj = object.__new__(cls)
            obj.context = w.ctx
            obj.hid = hid  # hierarchical name ("0", "1", "0.1" ...): stable when other holes are refined
            obj.num = len(w.holes)
            obj.ty = ty
            obj.props = {}
            obj._state = "undecided"
            obj._excluded = set()
            obj._answers = {}
            obj._Expr__serialize_id = 10**6 + obj.num
            obj._Expr__serialized = ("hole", ForkKey(obj.hid))
            w.holes.append(obj)
            return obj

        # --- shape
        @property
        def kind(self):
            if self._state == "opaque":
                return "opaque"
            return KindProxy(self)

        @property
        def operands(self):
            if self._state == "opaque":
                raise Unsupported("operands of an opaque leaf were read")
            raise NeedShape(self)

        @property
        def _two_level_intkey(self):
            return ("hole", ForkKey(self.hid))

        @property
        def key(self):
            return ("hole", ForkKey(self.hid))

        @property
        def intkey(self):
            return 10**6 + self.num

        def _set_serialized_id(self, i):
            pass

        def _compute_serialized(self):
            pass

        # --- typing
        def get_type(self):
            w = world()
            return w.bool_type() if self.ty == "B" else w.float_type()

        @property
        def is_complex(self):
            return False

        @property
        def _is_boolean(self):
            return self.ty == "B"

        # --- inference: the answer is a fork; its contract becomes a hypothesis
        def _answer(self, prop):
            w = world()
            if self._state == "undecided":
                # asking an inference question about a hole decides nothing about its shape: the answers of an
                # arbitrary sub-expression are any sound triple - exactly what the fork below enumerates
                pass
            return _answer_from_knowledge(_knowledge(w, "h" + self.hid, lambda: w.value_var(self), prop), prop)

        def rewrite(self, modifier, *a, **kw):
            raise Unsupported("Hole.rewrite outside the traversal contract")

        def __repr__(self):
            return "Hole(h%s:%s:%s)" % (self.hid, self.ty, self._state)

    for prop in ("zero", "one", "nonzero", "finite", "nonnegative", "nonpositive", "positive", "negative"):

        def getter(self, prop=prop):
            if self.ty == "B":
                return None  # the real inference has no case for boolean-valued kinds: it answers None
            return self._answer(prop)

        setattr(Hole, "_is_" + prop, property(getter))
    Hole.ForkKey = ForkKey
    _HOLE_CLASS.append(Hole)
    return Hole


def _fin(v):
    return z3.Not(z3.Or(z3.fpIsInf(v), z3.fpIsNaN(v)))


def _mk_props():
    def R(fr, ff):
        def f(v, w):
            return fr(v) if w.mode == "real" else ff(v, w)

        return f

    z = lambda v, w: symrun.fpval(0.0, w.fmt())  # noqa
    o = lambda v, w: symrun.fpval(1.0, w.fmt())  # noqa
    return dict(
        zero=R(lambda v: v == 0, lambda v, w: z3.fpIsZero(v)),
        one=R(lambda v: v == 1, lambda v, w: z3.fpEQ(v, o(v, w))),
        nonzero=R(lambda v: v != 0, lambda v, w: z3.Not(z3.fpIsZero(v))),
        finite=R(lambda v: z3.BoolVal(True), lambda v, w: _fin(v)),
        nonnegative=R(lambda v: v >= 0, lambda v, w: z3.fpGEQ(v, z(v, w))),
        nonpositive=R(lambda v: v <= 0, lambda v, w: z3.fpLEQ(v, z(v, w))),
        positive=R(lambda v: v > 0, lambda v, w: z3.fpGT(v, z(v, w))),
        negative=R(lambda v: v < 0, lambda v, w: z3.fpLT(v, z(v, w))),
    )


PROP_FORMULA = _mk_props()


def _check_consistent(w):
    s = z3.Solver()
    s.set("timeout", 5000)
    for h in w.hyps:
        s.add(h)
    if w.mode != "real":
        for hl in w.holes:
            if hl.ty == "F" and hl._state != "refined":
                s.add(z3.Not(z3.fpIsNaN(w.value_var(hl))))
    if s.check() == z3.unsat:
        raise Prune()


# ---------------------------------------------------------------------------------------------
# hole creation / refinement
# ---------------------------------------------------------------------------------------------
def new_hole(w, ty, hid):
    """a fresh hole named `hid`, or (fork) an alias of an existing hole of the same type class, or its refinement"""
    Hole = hole_class()
    if len(w.holes) > 64:
        raise Unsupported("more than 64 holes on one path: %s" % " ".join(w.trace)[-400:])
    if w.allow_alias:
        cands = [h.hid for h in w.holes if h.ty == ty and getattr(h, "_alias_of", None) is None and not getattr(h, "_building", False)]
        a = w.choose(("alias", hid), [None] + cands)
        if a is not None:
            ph = Hole(w, ty, hid)
            ph._alias_of = a
            w.trace.append("h%s:=h%s" % (hid, a))
            return resolve(w, w.byid[a])
    h = Hole(w, ty, hid)
    h._alias_of = None
    w.byid[hid] = h
    return resolve(w, h)


def resolve(w, h):
    """the object that stands for hole h under the current decisions (itself, or its refinement)"""
    shape = w.dec.get(("shape", h.hid))
    if shape is None:
        return h
    if getattr(h, "_node", None) is not None:
        return h._node
    h._building = True  # an expression cannot contain itself: no aliasing to a hole under construction
    try:
        h._node = build_shape(w, h, shape)
    finally:
        h._building = False
    return h._node


def alternatives(w, h):
    alts = [("opaque",)]
    if h.ty == "B":
        alts += [("const", True), ("const", False)]
    else:
        alts += [("const", "sym")]
        alts += [("const", "zero"), ("const", "one")]
        alts += [("named", n) for n in w.consts_named]
    for k in w.universe.get(h.ty, []):
        alts.append(("kind", k))
    if w.universe.get("select"):
        alts.append(("kind", "select"))
    return alts


def build_shape(w, h, shape):
    from functional_algorithms.expr import Expr

    ctx = w.ctx
    if shape[0] == "opaque":
        h._state = "opaque"
        w.trace.append("h%s=opaque" % h.hid)
        return h
    h._state = "refined"
    if shape[0] == "const":
        like = like_symbol(w, h.ty)
        if h.ty == "B":
            node = ctx.constant(shape[1], like)
        else:
            node = ctx.constant(payload_value(w, h, shape[1]), like)
        w.trace.append("h%s=const(%s)" % (h.hid, shape[1]))
        return _normal_form_or_prune(w, node)
    if shape[0] == "named":
        node = ctx.constant(shape[1], like_symbol(w, h.ty))
        w.trace.append("h%s=%s" % (h.hid, shape[1]))
        return _normal_form_or_prune(w, node)
    kind = shape[1]
    if kind == "select":
        tys = ("B", h.ty, h.ty)
    else:
        tys = SIG[kind][0]
    ops = tuple(new_hole(w, t, "%s.%d" % (h.hid, i)) for i, t in enumerate(tys))
    node = Expr(ctx, kind, ops)
    w.trace.append("h%s=%s(%s)" % (h.hid, kind, ",".join(_short(o) for o in ops)))
    return node


def _short(o):
    return "h%s" % o.hid if hasattr(o, "hid") else o.kind


def like_symbol(w, ty):
    if ty == "B":
        return w.ctx.symbol("_b", w.bool_type())
    return w.ctx.symbol("_x", w.float_type())


def payload_value(w, h, which):
    """a numeric payload: fully symbolic, or the literals 0 / 1 that the rules test for"""
    if which == "zero":
        lit = 0.0
    elif which == "one":
        lit = 1.0
    else:
        lit = None
    cls = w.payload_class()
    if w.mode == "real":
        if lit is not None:
            return float(lit)
        return SymReal(z3.Real("c%s" % h.hid), float)
    if lit is not None:
        return cls(lit)
    v = z3.FP("c%s" % h.hid, z3.FPSort(*w.fmt()))
    w.hyps.append(z3.Not(z3.fpIsNaN(v)))
    return SymFP(v, cls)


def _normal_form_or_prune(w, node):
    """operands reaching a rule are fix-points of the rewriter (bottom-up traversal, discharged separately):
    a constant alternative that the REAL Rewriter.constant would still change is not an admissible operand"""
    import functional_algorithms.rewrite as R

    r = R.Rewriter().constant(node)
    if r is not None and r is not node:
        raise Prune()
    return node


# ---------------------------------------------------------------------------------------------
# driver
# ---------------------------------------------------------------------------------------------
class PathOutcome:
    def __init__(self, w, inp, out, exc, eng):
        self.w, self.inp, self.out, self.exc, self.eng = w, inp, out, exc, eng

    def sig(self):
        t = " ".join(self.w.trace) or "-"
        d = getattr(self.eng, "decisions", None)
        if d:
            t += " #" + "".join("T" if x else "F" for x in d)  # forks on symbolic payload comparisons
        return t


def explore(build_and_run, mode, universe, consts_named=(), max_paths=400000, allow_alias=True, seeds=None, frontier=None):
    """build_and_run(world) -> (input expr, output)   ; yields PathOutcome for every completed path.
    `seeds`: start from these decision dicts (a shard of the tree).  `frontier=n`: breadth-first until at least n
    open decision dicts exist, then stop and leave them in explore.open (used to split a job over processes)."""
    from functional_algorithms.context import Context

    install()
    work = [dict(d) for d in seeds] if seeds is not None else [{}]
    explore.open = []
    seen = set()

    def push(d):
        key = frozenset((k, v if not isinstance(v, list) else tuple(v)) for k, v in d.items() if not (k in World.defaults and World.defaults[k] == v))
        if key in seen:
            return
        seen.add(key)
        work.append(d)

    n = 0
    while work:
        if frontier is not None and len(work) >= frontier:
            explore.open = work
            return
        dec = work.pop(0) if frontier is not None else work.pop()
        n += 1
        if n > max_paths:
            raise Unsupported("path explosion (> %d)" % max_paths)
        w = World(dec, mode, universe, consts_named, allow_alias)
        w.ctx = Context(paths=[])
        World.cur = w
        e = symrun.Engine(prefix=dec.get("__sym__", ()), int_width=64)
        symrun.Engine.cur = e
        inp = out = exc = None
        try:
            import warnings

            with warnings.catch_warnings():
                warnings.simplefilter("ignore")
                inp, out = build_and_run(w)
        except NeedShape as ns:
            h = ns.hole
            for alt in alternatives(w, h):
                g = "constant" if alt[0] in ("const", "named") else (alt[1] if alt[0] == "kind" else None)
                if g is not None and g in h._excluded:
                    continue
                d = dict(w.dec)
                d[("shape", h.hid)] = alt
                _forget_knowledge(d, h.hid)
                push(d)
            for d in w.new:
                push(d)
            continue
        except Rerun:
            push(dict(w.dec))
            for d in w.new:
                push(d)
            continue
        except (Prune, symrun.Infeasible):
            for d in w.new:
                push(d)
            continue
        except Unsupported:
            raise
        except Exception as ex:
            import traceback

            exc = (ex, traceback.format_exc()[-1200:])
        finally:
            World.cur = None
            symrun.Engine.cur = None
        for d in w.new:
            push(d)
        # forks made by symbolic payload comparisons (symrun engine): re-run with the decision prefix
        for pend in e.pending:
            d = dict(w.dec)
            d["__sym__"] = tuple(pend)
            push(d)
        w.sym_pc = list(e.pc)
        yield PathOutcome(w, inp, out, exc, e)


PROP_ONLY_WORDS = {"nonnegative", "nonpositive", "finite", "nonzero"}


def _flat_strings(c, out):
    if isinstance(c, str):
        out.append(c)
    elif isinstance(c, (frozenset, tuple, list)):
        for x in c:
            _flat_strings(x, out)


def _code_consts(code, known, found):
    for c in code.co_consts:
        if isinstance(c, str) and c in known:
            found.add(c)
        elif isinstance(c, (frozenset, tuple)):
            strs = []
            _flat_strings(c, strs)
            if PROP_ONLY_WORDS & set(strs):
                continue  # a container of inference PROPERTY names ("positive", "negative" ... are also kind names)
            for x in strs:
                if x in known:
                    found.add(x)
        elif isinstance(c, types.CodeType):
            _code_consts(c, known, found)


def _code_names(code, names):
    names.update(code.co_names)
    for c in code.co_consts:
        if isinstance(c, types.CodeType):
            _code_names(c, names)


def _has_is_op(code):
    import dis

    for ins in dis.get_instructions(code):
        if ins.opname == "IS_OP":
            return True
    for c in code.co_consts:
        if isinstance(c, types.CodeType) and _has_is_op(c):
            return True
    return False


INFER_NAMES = ("_is_zero", "_is_one", "_is_nonzero", "_is_finite", "_is_nonnegative", "_is_nonpositive", "_is_positive", "_is_negative", "_is")


def _infer_function(E, name):
    obj = vars(E.Expr)[name]
    f = obj.fget if isinstance(obj, property) else obj
    fs = [f]
    if getattr(f, "__closure__", None):
        for cell in f.__closure__:
            if isinstance(cell.cell_contents, types.FunctionType):
                fs.append(cell.cell_contents)
    return fs


def reach(method_names=(), infer_names=()):
    """code objects reachable from the given Rewriter methods / inference properties: transitively through
    attribute names that are Rewriter methods or module functions of rewrite.py, and through `_is*` names"""
    import functional_algorithms.expr as E
    import functional_algorithms.rewrite as R

    seen, codes, todo = set(), [], []
    for m in method_names:
        todo.append(("R", m))
    for n in infer_names:
        todo.append(("E", n))
    while todo:
        kind, name = todo.pop()
        if (kind, name) in seen:
            continue
        seen.add((kind, name))
        fs = []
        if kind == "R":
            obj = vars(R.Rewriter).get(name)
            if isinstance(obj, types.FunctionType):
                fs = [obj]
        elif kind == "M":
            obj = vars(R).get(name)
            if isinstance(obj, types.FunctionType):
                fs = [obj]
        else:
            if name in vars(E.Expr):
                fs = _infer_function(E, name)
        for f in fs:
            codes.append(f.__code__)
            names = set()
            _code_names(f.__code__, names)
            for n in names:
                if isinstance(vars(R.Rewriter).get(n), types.FunctionType):
                    todo.append(("R", n))
                mf = vars(R).get(n)
                if isinstance(mf, types.FunctionType) and mf.__module__ == R.__name__ and n not in ("rewrite",):
                    todo.append(("M", n))
                # inference called from a RULE is replaced by its contract (not followed); from an inference
                # function the other inference functions of the same node are real code
                if kind == "E" and (n == "_is" or n.startswith("_is_")) and n in vars(E.Expr):
                    todo.append(("E", n))
    return codes


def make_universe(method_names=(), infer_names=(), extra=()):
    """(universe, relevant kinds, aliasing needed) for the code reachable from the given entry points"""
    import functional_algorithms.expr as E

    known = set(E.known_expression_kinds)
    found = set(extra)
    codes = reach(method_names, infer_names)
    for c in codes:
        _code_consts(c, known, found)
    for m in method_names:
        pass
    alias = any(_has_is_op(c) for c in codes)
    uni = {"F": [], "B": []}
    for k, sig in SIG.items():
        if sig is None or k not in found:
            continue
        uni[sig[1]].append(k)
    uni["F"].sort()
    uni["B"].sort()
    uni["select"] = "select" in found
    return uni, sorted(found), alias
