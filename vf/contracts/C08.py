"""C08 - static types equal run-time types.

Induction over the graph; the induction step is a finite case analysis: for every operation kind the NumPy target
prints natively and every tuple of operand dtype classes a well-typed program can present,

      asdtype( get_type( K(x_1 .. x_n) ) )   ==   dtype of the value the REAL emitted code computes,

where the left side is the real static inference (Expr.get_type / Type.max / complex_part ...) on real symbol nodes
and the right side is obtained by letting the real NumPy printer emit the function at debug level 1 (so the emitted
type assertions are present) and executing it on witnesses of those dtypes.  Base cases: argument casts, numeric and
named constants, up/downcast.  Assumed (NumPy promotion, NEP 50): the result dtype of a scalar operation depends only
on the operand dtypes, so one witness per dtype tuple decides the case.
"""
from __future__ import annotations

import itertools
import json
import traceback
import warnings

import numpy

from vf import core

PROP = "C08"
F = ["float16", "float32", "float64"]
C = ["complex64", "complex128"]
NUM = F + C
WITNESS = dict(float16=numpy.float16(0.5), float32=numpy.float32(0.5), float64=numpy.float64(0.5), complex64=numpy.complex64(0.5 + 0.25j), complex128=numpy.complex128(0.5 + 0.25j), boolean=numpy.bool_(True))

UNARY_FC = "negative positive sqrt square asin acos atan asinh acosh atanh sin cos tan sinh cosh tanh log log1p log2 log10 exp expm1 exp2 absolute".split()
UNARY_F = "ceil floor truncate sign is_finite".split()
UNARY_C = "real imag conjugate".split()
BINARY_FC = "add subtract multiply divide pow".split()
BINARY_F = "maximum minimum atan2 hypot copysign remainder nextafter".split()
COMPARE_F = "lt le gt ge".split()
COMPARE_FC = "eq ne".split()
LOGICAL2 = "logical_and logical_or".split()


def cases():
    out = []
    for k in UNARY_FC:
        out += [(k, (t,)) for t in NUM]
    for k in UNARY_F:
        out += [(k, (t,)) for t in F]
    for k in UNARY_C:
        out += [(k, (t,)) for t in C]
    for k in BINARY_FC:
        out += [(k, ts) for ts in itertools.product(NUM, NUM)]
    for k in BINARY_F + COMPARE_F:
        out += [(k, ts) for ts in itertools.product(F, F)]
    for k in COMPARE_FC:
        out += [(k, ts) for ts in itertools.product(NUM, NUM)]
    for k in LOGICAL2:
        out.append((k, ("boolean", "boolean")))
    out.append(("logical_not", ("boolean",)))
    out += [("select", ("boolean",) + ts) for ts in itertools.product(NUM, NUM)]
    out += [("complex", (t, t)) for t in ("float32", "float64")]
    out += [("upcast", (t,)) for t in ("float16", "float32", "float64", "complex64")]
    out += [("downcast", (t,)) for t in ("float32", "float64", "complex128")]
    return out


def run_case(kind, types, wrap=None):
    """returns (ok, detail): static dtype of the node vs dtype of the executed emitted code (debug=1 assertions on)"""
    import functional_algorithms as fa
    from functional_algorithms import targets
    from functional_algorithms.expr import Expr

    tmpl = targets.numpy.kind_to_target.get(kind, NotImplemented)
    if tmpl is NotImplemented:
        return None, dict(skipped="the NumPy target does not print %s natively" % kind)
    ctx = fa.Context(paths=[])
    syms = [ctx.symbol("x%d" % i, t) for i, t in enumerate(types)]
    node = Expr(ctx, kind, tuple(syms))
    if wrap is not None:
        node = wrap(ctx, node)
    try:
        st = node.get_type()
        static = st.asdtype()
    except Exception as e:
        return False, dict(static_inference_raised=repr(e))
    syms = [a.reference(ref_name="x%d" % i) for i, a in enumerate(syms)]
    graph = ctx.apply(ctx.symbol("f").reference(ref_name="f"), syms, node)
    with warnings.catch_warnings(), numpy.errstate(all="ignore"):
        warnings.simplefilter("ignore")
        try:
            src = graph.tostring(targets.numpy, debug=1)
            fn = targets.numpy.as_function(graph, debug=1)
        except Exception as e:
            return False, dict(emit_raised=repr(e)[:300])
        args = [WITNESS[t] for t in types]
        try:
            r = fn(*args)
        except AssertionError as e:
            return False, dict(static=str(st), assertion_fired=repr(e)[:200], source=src[-600:])
        except Exception as e:
            return None, dict(run_raised=repr(e)[:200], static=str(st))
    runtime = numpy.asarray(r).dtype
    # the dtype the printer declares for this static type (boolean -> numpy.bool_)
    declared = eval(targets.numpy.type_to_target[str(st)], dict(numpy=numpy))
    ok = numpy.dtype(declared) == runtime
    return ok, dict(static=str(st), declared=str(numpy.dtype(declared)), runtime=str(runtime))


def build(tier):
    rep = core.Report(PROP, tier)
    rep.trust("CPython + NumPy executing the code emitted by the real NumPy printer", "the real static inference (Expr.get_type, Expr.is_complex, Type.max, Type.complex_part, Type.asdtype)")
    rep.assume(
        "NumPy promotion (NEP 50): the result dtype of a scalar operation depends only on the operand dtypes - one witness per dtype tuple decides the case",
        "well-typed programs: operand classes per kind as enumerated (comparisons/min/max/atan2/hypot on reals, logical ops on booleans, real/imag/conjugate on complex, arithmetic/transcendentals/eq/ne/select on any mix of float16/32/64 and complex64/128)",
        "induction over the graph: a node's static type is computed from its operands' static types, its run-time dtype from its operands' run-time dtypes (compositionality of get_type and of NumPy evaluation)",
        "integer kinds, lists/items and bitwise kinds are not covered",
    )
    rep.extraction_drops.append("nothing: real get_type on real nodes; real printer output executed")
    rep.notes.append("exhaustive finite case analysis (kind x operand dtype classes), not SMT")
    fns = ("expr.Expr.get_type", "typesystem.Type.max", "targets.numpy.Printer")
    for f in fns:
        rep.under_contract(f, "static dtype == run-time dtype for every kind and operand dtype tuple")
    n = 0
    for kind, types in cases():
        n += 1
        try:
            ok, detail = run_case(kind, types)
        except Exception:
            ok, detail = core.ERROR, dict(tb=traceback.format_exc()[-800:])
        cid = "C08/step/%s/%s" % (kind, ",".join(types))
        if ok is None:
            rep.add(core.decided(cid, PROP, None, functions=fns, text=str(detail), detail=detail, claimed=False))
            continue
        rep.add(core.decided(cid, PROP, ok, functions=fns, text="%s(%s): static type == dtype produced by the emitted code" % (kind, ", ".join(types)), detail=detail, meta=dict(kind=kind, types=list(types), detail=detail)))
    # one more level where the two inference tables interact (type of abs/real/imag of a select, is_complex vs get_type)
    for outer in ("absolute", "real", "imag", "negative", "sqrt"):
        for ts in itertools.product(NUM, NUM):
            if outer in ("real", "imag") and not (ts[0] in C or ts[1] in C):
                continue

            def wrap(ctx, node, outer=outer):
                from functional_algorithms.expr import Expr

                return Expr(ctx, outer, (node,))

            try:
                ok, detail = run_case("select", ("boolean",) + ts, wrap=wrap)
            except Exception:
                ok, detail = core.ERROR, dict(tb=traceback.format_exc()[-800:])
            cid = "C08/step/%s(select)/%s" % (outer, ",".join(ts))
            if ok is None:
                rep.add(core.decided(cid, PROP, None, functions=fns, text=str(detail), claimed=False))
            else:
                rep.add(core.decided(cid, PROP, ok, functions=fns, text="%s(select(c, %s)): static type == run-time dtype" % (outer, ", ".join(ts)), detail=detail, meta=dict(kind=outer + "(select)", types=list(ts), detail=detail)))
    # base cases: constants (numeric payload classes and named constants) like each dtype
    import functional_algorithms as fa
    from functional_algorithms import targets

    for t in NUM:
        for label, value in (("int", 2), ("float", 1.5), ("bool", True), ("numpy.float32", numpy.float32(1.5)), ("numpy.float64", numpy.float64(1.5))) + tuple((nm, nm) for nm in ("eps", "largest", "smallest", "smallest_subnormal", "posinf", "neginf", "pi", "nan")):
            ctx = fa.Context(paths=[])
            x = ctx.symbol("x", t)
            node = ctx.constant(value, x)
            cid = "C08/base/constant/%s/like=%s" % (label, t)
            try:
                with warnings.catch_warnings(), numpy.errstate(all="ignore"):
                    warnings.simplefilter("ignore")
                    x = x.reference(ref_name="x")
                    graph = ctx.apply(ctx.symbol("f").reference(ref_name="f"), [x], node)
                    st = node.get_type()
                    fn = targets.numpy.as_function(graph, debug=1)
                    r = fn(WITNESS[t])
                ok = numpy.dtype(eval(targets.numpy.type_to_target[str(st)], dict(numpy=numpy))) == numpy.asarray(r).dtype
                detail = dict(static=str(st), runtime=str(numpy.asarray(r).dtype))
            except AssertionError as e:
                ok, detail = False, dict(assertion_fired=repr(e)[:200])
            except Exception as e:
                ok, detail = None, dict(raised=repr(e)[:300])
            rep.add(core.decided(cid, PROP, ok, functions=("targets.numpy.Printer.make_constant",) + fns[:1], text="constant(%s) like a %s symbol materialises with the static dtype" % (label, t), detail=detail, claimed=ok is not None, meta=dict(kind="constant", types=[label, t], detail=detail)))
    # constants created WITHOUT a reference operand (ctx.constant(1.5)): their static type is the unsized float / integer /
    # complex, which Type.max lets adapt to the other operand; the printed literal must then have that dtype too
    for kind in ("add", "subtract", "multiply", "divide"):
        for t in NUM:
            for label, value in (("float", 1.5), ("int", 2), ("complex", 1.5 + 0.5j)):
                for order in ("x,c", "c,x"):
                    ctx = fa.Context(paths=[])
                    x = ctx.symbol("x", t).reference(ref_name="x")
                    c = ctx.constant(value)
                    cid = "C08/unsized-constant/%s/%s/%s/%s" % (kind, t, label, order)
                    try:
                        with warnings.catch_warnings(), numpy.errstate(all="ignore"):
                            warnings.simplefilter("ignore")
                            from functional_algorithms.expr import Expr

                            node = Expr(ctx, kind, (x, c) if order == "x,c" else (c, x))
                            graph = ctx.apply(ctx.symbol("f").reference(ref_name="f"), [x], node)
                            st = node.get_type()
                            fn = targets.numpy.as_function(graph, debug=0)
                            r = fn(WITNESS[t])
                        want = numpy.dtype(eval(targets.numpy.type_to_target[str(st)], dict(numpy=numpy)))
                        ok = want == numpy.asarray(r).dtype
                        detail = dict(static=str(st), runtime=str(numpy.asarray(r).dtype))
                    except Exception as e:
                        ok, detail = None, dict(raised=repr(e)[:300])
                    rep.add(core.decided(cid, PROP, ok, functions=fns, text="%s of a %s symbol and an unsized %s constant (%s): static type == run-time dtype" % (kind, t, label, order), detail=detail, claimed=ok is not None, meta=dict(kind="unsized-constant", types=[kind, t, label, order], detail=detail)))
    # "any mix of constants": integer constants through float-valued operations, a boolean inside a list result, complex built
    # from components of different widths
    def one(cid, build_fn, arg_types, text, kindname):
        ctx = fa.Context(paths=[])
        syms = [ctx.symbol("x%d" % i, t).reference(ref_name="x%d" % i) for i, t in enumerate(arg_types)]
        try:
            with warnings.catch_warnings(), numpy.errstate(all="ignore"):
                warnings.simplefilter("ignore")
                node = build_fn(ctx, *syms)
                graph = ctx.apply(ctx.symbol("f").reference(ref_name="f"), syms, node)
                st = node.get_type()
                fn = targets.numpy.as_function(graph, debug=1)
                r = fn(*[WITNESS[t] for t in arg_types])
            if str(st).startswith("list"):
                ok, detail = True, dict(static=str(st), runtime="list of %d" % len(r))
            else:
                want = numpy.dtype(eval(targets.numpy.type_to_target[str(st)], dict(numpy=numpy)))
                ok = want == numpy.asarray(r).dtype
                detail = dict(static=str(st), runtime=str(numpy.asarray(r).dtype))
        except AssertionError as e:
            ok, detail = False, dict(assertion_fired=repr(e)[:200])
        except Exception as e:
            ok, detail = False, dict(raised=repr(e)[:300])
        rep.add(core.decided(cid, PROP, ok, functions=fns, text=text, detail=detail, meta=dict(kind=kindname, types=list(arg_types), detail=detail)))

    from functional_algorithms.expr import Expr as _E

    for kind in ("sqrt", "exp", "log1p"):
        # the sub-expression is bound to a name, so the debug-level-1 assertion applies to IT (every sub-expression has its type)
        one("C08/mixed-constants/integer-constant/%s" % kind, lambda ctx, x, kind=kind: _E(ctx, kind, (ctx.constant(2),)).reference(ref_name="sub", force=True) + x * ctx.constant(0, x), ("float64",), "%s of an integer constant: static type == run-time dtype" % kind, "integer-constant")
    one("C08/mixed-constants/integer-constant/divide", lambda ctx, x: (ctx.constant(1) / ctx.constant(2)).reference(ref_name="sub", force=True) + x * ctx.constant(0, x), ("float64",), "1 / 2 of integer constants: static type == run-time dtype", "integer-constant")
    one("C08/mixed-constants/list-with-boolean-item", lambda ctx, x: ctx.list([x + x, x < x]), ("float32",), "a list result with a boolean item: the debug-level-1 code can be generated and runs", "list-with-boolean")
    for ta, tb in (("float64", "float32"), ("float32", "float64"), ("float16", "float32"), ("float32", "float32")):
        one("C08/mixed-constants/complex-of-mixed-widths/%s,%s" % (ta, tb), lambda ctx, a, b: ctx.complex(a, b), (ta, tb), "complex(%s, %s): static type == run-time dtype" % (ta, tb), "complex-of-mixed-widths")
    # base case: argument casting at function entry (force_cast_arguments) gives every symbol its declared dtype
    for t in NUM:
        ctx = fa.Context(paths=[])
        x = ctx.symbol("x", t)
        x = x.reference(ref_name="x")
        graph = ctx.apply(ctx.symbol("f").reference(ref_name="f"), [x], x + x)
        with warnings.catch_warnings():
            warnings.simplefilter("ignore")
            fn = targets.numpy.as_function(graph, debug=1)
            try:
                r = fn(0.5)  # a Python float argument
                ok = numpy.asarray(r).dtype == numpy.dtype(t)
                detail = dict(runtime=str(numpy.asarray(r).dtype))
            except Exception as e:
                ok, detail = False, dict(raised=repr(e)[:200])
        rep.add(core.decided("C08/base/argument-cast/%s" % t, PROP, ok, functions=("targets.base.PrinterBase.init_arguments",), text="a Python-number argument is cast to the declared dtype %s" % t, detail=detail))
    rep.under_contract("targets.numpy.Printer.make_constant", "constant has the dtype of its reference type")
    rep.under_contract("targets.base.PrinterBase.init_arguments", "arguments are cast to their declared dtype")
    # canary: float32 + float64 is float64 at run time (a static answer float32 would be caught)
    rep.add(core.decided("C08/canary/promotion-observable", PROP, (numpy.float32(1) + numpy.float64(1)).dtype != numpy.dtype("float32"), text="canary: run-time promotion differs from the narrower operand type", kind="canary"))
    rep.replayers["C08/"] = lambda o: dict(replayed=True, witness_class="%s(%s)" % ((o.meta or {}).get("kind"), ",".join(((o.meta or {}).get("types") or [])[1:3] if (o.meta or {}).get("kind") == "unsized-constant" else ((o.meta or {}).get("types") or []))) + ((": static %s, run-time %s" % (((o.meta or {}).get("detail") or {}).get("static"), ((o.meta or {}).get("detail") or {}).get("runtime"))) if (o.meta or {}).get("kind") == "unsized-constant" else ""), detail=(o.meta or {}).get("detail"))
    return rep


def main(tier, only=None):
    rep = build(tier)
    if only:
        rep.obls = [o for o in rep.obls if only in o.id]
    return rep.finish()


def replay(path):
    d = json.load(open(path))
    meta = d.get("meta") or {}
    if meta.get("kind") and "(" not in meta["kind"] and meta["kind"] != "constant":
        ok, detail = run_case(meta["kind"], tuple(meta["types"]))
        print(json.dumps(dict(ok=ok, detail=detail), indent=1, default=str))
        return 0 if ok else 1
    print(json.dumps(meta, indent=1, default=str))
    return 1
