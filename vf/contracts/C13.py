"""C13 - number-representation conversions are lossless and mutually inverse.

A. PROOF (E2, exponent split): utils.float2fraction (NumPy scalar branch) returns a fraction whose value is exactly the
   value of the float, for every finite float16/float32/float64.  The real code object runs on a float assembled from
   (sign bit, CONCRETE exponent field, symbolic fraction field): one run per exponent-field value (31 + 255 + 2047 of
   them - every binade, subnormals included), so every shift amount in the code is a concrete number and the obligation
   `num * D == N * denom` (value = N / D from the IEEE definition) is a bit-vector identity with constant shifts.
   `fractions.Fraction` is replaced by a pair holder (num, denom) - normalisation by gcd is the library's business.

B. BOUNDED STAND-IN (labelled, never counted as proved): the remaining converters run through mpmath / string
   manipulation (float2bin, bin2float, float2mpf, mpf2float, fraction2float, mpf2expansion, expansion2mpf,
   float2expansion, mpf2multiword, multiword2mpf) and are executed natively on the property's own stated quantifier:
   every float16 bit pattern, and float32 / float64 samples over every exponent-field value (all subnormal binades,
   extremes, powers of two) with boundary and pseudo-random fraction fields; exact values are compared as Fractions
   computed from the bit pattern by the IEEE definition (independent of the code under test).
"""
from __future__ import annotations

import json
import multiprocessing as mp
import os
import time
import traceback
from fractions import Fraction

import numpy
import z3

from vf import core, symrun
from vf.symrun import FMT, UINT, SymFP, SymInt, explore, reglobal

PROP = "C13"
TYPES = [numpy.float16, numpy.float32, numpy.float64]
WIDTH = {numpy.float16: 64, numpy.float32: 256, numpy.float64: 1200}


class SymFrac:
    """stands for fractions.Fraction(num, denom): the pair, not normalised"""

    def __init__(self, num=0, den=1):
        self.num, self.den = num, den


class FracMod:
    Fraction = SymFrac


def exact_value(bits, t):
    """the value of a finite float from its bit pattern, by the IEEE 754 definition"""
    eb, sb = FMT[t]
    s = bits >> (eb + sb - 1)
    E = (bits >> (sb - 1)) & ((1 << eb) - 1)
    F = bits & ((1 << (sb - 1)) - 1)
    bias = (1 << (eb - 1)) - 1
    if E == 0:
        v = Fraction(F) * Fraction(2) ** (1 - bias - (sb - 1))
    else:
        v = Fraction((1 << (sb - 1)) + F) * Fraction(2) ** (E - bias - (sb - 1))
    return -v if s else v


# ---------------------------------------------------------------------------------------------
# A. float2fraction, exponent split
# ---------------------------------------------------------------------------------------------
def _bv(v, W):
    if isinstance(v, SymInt):
        return z3.SignExt(W - v.e.size(), v.e) if v.e.size() < W else v.e
    return z3.BitVecVal(int(v), W)


def build_exponent(arg):
    """obligations (as SMT-LIB scripts) for one (format, exponent field) - runs in a pool process"""
    tn, E = arg
    t = getattr(numpy, tn)
    import functional_algorithms.utils as U

    g = reglobal(U)
    g["fractions"] = FracMod
    f = g["float2fraction"]
    eb, sb = FMT[t]
    W = WIDTH[t]
    sgn = z3.BitVec("s", 1)
    F = z3.BitVec("F", sb - 1)
    x = z3.fpBVToFP(z3.Concat(sgn, z3.BitVecVal(E, eb), F), z3.FPSort(eb, sb))
    out = []
    base = "C13/utils.float2fraction/%s/E=%d" % (tn, E)
    try:
        paths = explore(lambda e: f(SymFP(x, t)), int_width=W)
    except Exception:
        return [dict(id=base + "/engine", error=traceback.format_exc()[-800:])]
    bias = (1 << (eb - 1)) - 1
    q = (1 - bias - (sb - 1)) if E == 0 else (E - bias - (sb - 1))
    W2 = 2 * W
    Fz = z3.ZeroExt(W2 - (sb - 1), F)
    sig = Fz if E == 0 else Fz + z3.BitVecVal(1 << (sb - 1), W2)
    sig = z3.If(sgn == 1, -sig, sig)
    N = sig << max(q, 0)  # value = N / D
    Dk = max(-q, 0)
    for p in paths:
        pid = "%s/path=%s" % (base, p.sig())
        if p.exc is not None or not isinstance(p.result, SymFrac):
            # any input of this (feasible) path is a witness: the obligation is `the path is infeasible`
            s = z3.Solver()
            for c in p.pc:
                s.add(c)
            s.add(F == F, sgn == sgn)
            out.append(dict(id=pid + "/returns-fraction", smt2=s.to_smt2().replace("(check-sat)", ""), text="no input makes float2fraction raise / return a non-fraction (here: %r)" % (p.exc or type(p.result).__name__,)))
            continue
        num, den = _bv(p.result.num, W2), _bv(p.result.den, W2)
        dv = p.result.den
        if isinstance(dv, int) and dv > 0 and dv & (dv - 1) == 0:
            rhs = N << (dv.bit_length() - 1)  # a concrete power of two: a constant shift instead of a wide multiplication
        else:
            rhs = N * den
        s = z3.Solver()
        for c in p.pc:
            s.add(c)
        # widths: |num|, |den| < 2**(W-1) (the engine's side conditions), D <= 2**Dk with Dk < W: no wrap-around in 2W bits
        s.add(z3.Not(z3.And(den != 0, (num << Dk) == rhs)))
        out.append(dict(id=pid + "/exact-value", smt2=s.to_smt2().replace("(check-sat)", ""), text="num * 2**%d == (+-significand * 2**%d) * denom and denom != 0" % (Dk, max(q, 0))))
        if p.side:
            s = z3.Solver()
            for c in p.pc:
                s.add(c)
            s.add(z3.Not(z3.And([cond for _, cond in p.side])))
            out.append(dict(id="%s/int-model-adequate" % pid, smt2=s.to_smt2().replace("(check-sat)", ""), text="no integer operation on this path leaves the %d-bit model (%d side conditions)" % (W, len(p.side))))
    return out


def part_a(rep, tier, only=None):
    fn = ("utils.float2fraction",)
    rep.under_contract(fn[0], "value(Fraction) == value(float) exactly, for every finite float (exponent split)")
    args = []
    for t in TYPES:
        eb, sb = FMT[t]
        for E in range(0, (1 << eb) - 1):
            args.append((t.__name__, E))
    if only:
        args = [a for a in args if only in "C13/utils.float2fraction/%s/E=%d/" % a]
    ctx = mp.get_context("fork")
    with ctx.Pool(core.NPROC) as pool:
        for lst in pool.imap_unordered(build_exponent, args, chunksize=8):
            for d in lst:
                tn, E = d["id"].split("/")[2], int(d["id"].split("/")[3][2:])
                meta = dict(t=tn, E=E, part="A")
                if "error" in d:
                    rep.add(core.decided(d["id"], PROP, core.ERROR, functions=fn, text=d["error"]))
                elif "refuted" in d:
                    rep.add(core.decided(d["id"], PROP, False, functions=fn, text=d["refuted"], meta=meta))
                else:
                    rep.add(core.smt(d["id"], PROP, d["smt2"], functions=fn, text=d["text"], budget_s=120, meta=meta))
    # canary: the engine refutes a wrong scale
    s = z3.Solver()
    F = z3.BitVec("F", 10)
    s.add(z3.ZeroExt(54, F) << 3 != z3.ZeroExt(54, F) * 8)
    rep.add(core.smt("C13/canary/shift-is-multiplication", PROP, s, text="sanity: constant shift == multiplication by the power of two", budget_s=30))
    s = z3.Solver()
    s.add(z3.ZeroExt(54, F) << 3 != z3.ZeroExt(54, F) * 4)
    rep.add(core.smt("C13/canary/wrong-scale", PROP, s, text="canary: an off-by-one exponent is refuted", expect="sat", kind="canary", budget_s=30))


def replay_a(o):
    import functional_algorithms.utils as U

    meta, m = o.meta or {}, o.model or {}
    if meta.get("part") != "A" or o.model is None:
        return dict(replayed=False, witness_class=None)
    t = getattr(numpy, meta["t"])
    eb, sb = FMT[t]
    bits = (int(m.get("s", {}).get("value", 0)) << (eb + sb - 1)) | (meta["E"] << (sb - 1)) | int(m.get("F", {}).get("value", 0))  # variables the solver left unconstrained: 0
    x = UINT[t](bits).view(t)
    info = dict(x=repr(x), bits=hex(bits), witness_class="float2fraction %s" % meta["t"])
    try:
        got = U.float2fraction(x)
        want = exact_value(bits, t)
        info.update(got=str(got), want=str(want), replayed=bool(got != want))
    except Exception as e:
        info.update(raised=repr(e), replayed=True)
    return info


# ---------------------------------------------------------------------------------------------
# C. float2mpf, exponent split, modular (mpmath replaced by its contract)
# ---------------------------------------------------------------------------------------------
class MpfOfFloat:
    """contract of ctx.ldexp(m, n) for a float m: the multiprecision number m * 2**n EXACTLY (no rounding: mpmath's ldexp
    only changes the exponent).  int() of it is that value when it is an integer - here: m = 0 or 0.5 <= |m| < 1 with a
    p-bit significand and n >= p."""

    def __init__(self, m, n):
        self.m, self.n = m, n

    def __symint__(self):
        e = symrun.eng()
        eb, sb = self.m.fmt
        W = e.W
        bits = symrun.fp_bits(self.m.e)
        nb = eb + sb
        sign = z3.Extract(nb - 1, nb - 1, bits)
        ef = z3.Extract(nb - 2, sb - 1, bits)
        fr = z3.Extract(sb - 2, 0, bits)
        bias = (1 << (eb - 1)) - 1
        if not isinstance(self.n, int) or self.n < sb:
            raise symrun.Unsupported("ldexp(m, n) with n below the precision: int() would truncate")
        zero = z3.And(ef == 0, fr == 0)
        e.side.append(("ldexp-mantissa-in-[0.5,1)-or-zero", z3.Or(zero, ef == bias - 1)))
        mag = (z3.ZeroExt(W - (sb - 1), fr) + z3.BitVecVal(1 << (sb - 1), W)) << (self.n - sb)
        val = z3.simplify(z3.If(zero, z3.BitVecVal(0, W), z3.If(sign == 1, -mag, mag)))
        return val.as_signed_long() if z3.is_bv_value(val) else SymInt(val)

    def __eq__(self, o):
        mine = self.__symint__()
        if isinstance(mine, int) and isinstance(o, int):
            return mine == o
        a = mine if isinstance(mine, SymInt) else SymInt(z3.BitVecVal(mine, symrun.eng().W))
        return a == o

    __hash__ = None


class MpfHolder:
    def __init__(self, man, exp, prec, rnd):
        self.man, self.exp, self.prec, self.rnd = man, exp, prec, rnd


class FakeMpCtx:
    def __init__(self, prec):
        self._prec_rounding = [prec, "n"]

    def ldexp(self, m, n):
        return MpfOfFloat(m, n)

    def make_mpf(self, t):
        return t

    def isfinite(self, r):
        return isinstance(r, MpfHolder)


class _LibMp:
    finf, fninf, fnan = "finf", "fninf", "fnan"

    @staticmethod
    def from_man_exp(man, exp, prec=None, rnd=None):
        return MpfHolder(man, exp, prec, rnd)


class MpmathShadowC:
    libmp = _LibMp


def build_exponent_mpf(arg):
    tn, E = arg[:2]
    ctxprec = arg[2] if len(arg) > 2 else None  # None: a context of p + 10 bits; a number: a context of that many bits (float64 only)
    t = getattr(numpy, tn)
    import functional_algorithms.utils as U

    g = reglobal(U, extra=dict(mpmath=MpmathShadowC))
    f = g["float2mpf"]
    eb, sb = FMT[t]
    W = WIDTH[t]
    sgn = z3.BitVec("s", 1)
    F = z3.BitVec("F", sb - 1)
    x = z3.fpBVToFP(z3.Concat(sgn, z3.BitVecVal(E, eb), F), z3.FPSort(eb, sb))
    out = []
    base = "C13/utils.float2mpf/%s/E=%d" % (tn, E) + ("/ctxprec=%d" % ctxprec if ctxprec else "")
    try:
        paths = explore(lambda e: f(FakeMpCtx(ctxprec or sb + 10), SymFP(x, t)), int_width=W)
    except Exception:
        return [dict(id=base + "/engine", error=traceback.format_exc()[-800:])]
    bias = (1 << (eb - 1)) - 1
    q = (1 - bias - (sb - 1)) if E == 0 else (E - bias - (sb - 1))
    W2 = 2 * W
    Fz = z3.ZeroExt(W2 - (sb - 1), F)
    sig = Fz if E == 0 else Fz + z3.BitVecVal(1 << (sb - 1), W2)
    sig = z3.If(sgn == 1, -sig, sig)
    for p in paths:
        pid = "%s/path=%s" % (base, p.sig())
        s = z3.Solver()
        for c in p.pc:
            s.add(c)
        r = p.result
        if p.exc is not None or not isinstance(r, MpfHolder):
            s.add(F == F, sgn == sgn)
            out.append(dict(id=pid + "/returns-mpf", smt2=s.to_smt2().replace("(check-sat)", ""), text="no finite input makes float2mpf raise / return something else (here: %r)" % (p.exc or type(r).__name__,)))
            continue
        man = _bv(r.man, W2)
        # value = man * 2**exp must be sig * 2**q; the exponent may be symbolic for subnormal inputs: compare after shifting
        # both sides to the smaller exponent (q is the lower bound of every admissible exponent: man carries at most sb bits
        # above it)
        if isinstance(r.exp, int):
            d = r.exp - q
            goal = (man << d) == sig if d >= 0 else man == (sig << (-d))
            if abs(d) >= W:
                goal = z3.BoolVal(False)
        else:
            ex = z3.SignExt(W2 - r.exp.e.size(), r.exp.e)
            d = ex - z3.BitVecVal(q, W2)
            goal = z3.Or(z3.And(man == 0, sig == 0), z3.And(d >= 0, d < sb + 2, (man << d) == sig), z3.And(d < 0, -d < sb + 2, man == (sig << (-d))))  # zero: any exponent
        # from_man_exp(man, exp, prec, rnd) is exact only when man fits prec bits: the precision handed over is part of the goal
        fits = z3.BoolVal(isinstance(r.prec, int) and r.prec >= sb) if True else None
        s.add(z3.Not(z3.And(goal, fits)))
        out.append(dict(id=pid + "/exact-value", smt2=s.to_smt2().replace("(check-sat)", ""), text="man * 2**exp == +-significand * 2**%d, and the precision passed to from_man_exp (%r) holds the %d-bit mantissa" % (q, r.prec, sb)))
        if p.side:
            s = z3.Solver()
            for c in p.pc:
                s.add(c)
            s.add(z3.Not(z3.And([cond for _, cond in p.side])))
            out.append(dict(id="%s/int-model-adequate" % pid, smt2=s.to_smt2().replace("(check-sat)", ""), text="integer model and callee preconditions hold on this path (%d side conditions)" % len(p.side)))
    return out


def part_c(rep, tier, only=None):
    fn = ("utils.float2mpf",)
    rep.under_contract(fn[0], "the mpf (man, exp) handed to mpmath has exactly the value of the float, for every finite float (exponent split; mpmath calls replaced by their contracts)")
    args = []
    for t in TYPES:
        eb, sb = FMT[t]
        for E in range(0, (1 << eb) - 1):
            args.append((t.__name__, E))
    if only:
        args = [a for a in args if only in "C13/utils.float2mpf/%s/E=%d/" % a]
    # the value must not depend on the working precision of the context handed in: float64 under a 5-bit context, on every
    # 16th exponent field and the extremes (float16 / float32 go through mpmath's conversion of a NumPy scalar, which rounds
    # to the context precision - the ldexp contract above holds for them only in contexts of at least p bits)
    if not only or "ctxprec" in only:
        args += [("float64", E, 5) for E in sorted(set(range(0, 2047, 16)) | {1, 2046, 1022, 1023, 1024, 1075})]
    ctx = mp.get_context("fork")
    with ctx.Pool(core.NPROC) as pool:
        for lst in pool.imap_unordered(build_exponent_mpf, args, chunksize=8):
            for d in lst:
                tn, E = d["id"].split("/")[2], int(d["id"].split("/")[3][2:])
                meta = dict(t=tn, E=E, part="C")
                if "error" in d:
                    rep.add(core.decided(d["id"], PROP, core.ERROR, functions=fn, text=d["error"]))
                else:
                    rep.add(core.smt(d["id"], PROP, d["smt2"], functions=fn, text=d["text"], budget_s=120, meta=meta))


def replay_c(o):
    import re

    import mpmath

    import functional_algorithms.utils as U

    meta, m = o.meta or {}, o.model or {}
    if meta.get("part") != "C" or o.model is None:
        return dict(replayed=False, witness_class=None)
    t = getattr(numpy, meta["t"])
    eb, sb = FMT[t]
    mm = re.search(r"/ctxprec=(\d+)/", o.id)
    wp = int(mm.group(1)) if mm else sb + 10
    info = dict(witness_class="float2mpf %s" % meta["t"], replayed=False)
    # the model's fraction field first; fields the solver left unconstrained are 0 there, so all-ones and 1 are tried as well
    for Fv in (int(m.get("F", {}).get("value", 0)), (1 << (sb - 1)) - 1, 1):
        bits = (int(m.get("s", {}).get("value", 0)) << (eb + sb - 1)) | (meta["E"] << (sb - 1)) | Fv
        x = UINT[t](bits).view(t)
        info.update(x=repr(x), bits=hex(bits), context_precision=wp)
        try:
            with mpmath.workprec(wp):
                got = mpf_value(U.float2mpf(mpmath.mp, x))
            want = exact_value(bits, t)
            info.update(got=str(got), want=str(want), replayed=bool(got != want))
        except Exception as e:
            info.update(raised=repr(e), replayed=True)
        if info["replayed"]:
            break
    return info


# ---------------------------------------------------------------------------------------------
# D. fraction2float on the fraction float2fraction returns, modular (mpmath and mpf2float replaced by their contracts)
# ---------------------------------------------------------------------------------------------
class MpfIntD:
    """contract of mpmath.mp.mpf(n) for a Python int n: the multiprecision number RN_prec(n), prec the working precision
    at the time of the call; EXACT when the odd part of n has at most prec bits"""

    def __init__(self, n, prec):
        self.n, self.prec = n, prec

    def __truediv__(self, d):
        return MpfQuotD(self.n, d, self.prec, _MpD.cur.prec)


class MpfQuotD:
    """contract of mpf / int: RN_prec(value / d); EXACT when the quotient has at most prec significant bits"""

    def __init__(self, num, den, prec_mpf, prec_div):
        self.num, self.den, self.prec_mpf, self.prec_div = num, den, prec_mpf, prec_div


class _WorkPrecD:
    def __init__(self, mp_, prec):
        self.mp, self.new = mp_, prec

    def __enter__(self):
        self.old, self.mp.prec = self.mp.prec, self.new

    def __exit__(self, *a):
        self.mp.prec = self.old
        return False


class _MpD:
    cur = None

    def __init__(self):
        self.prec = 53  # mpmath's default working precision
        _MpD.cur = self

    def workprec(self, prec):
        return _WorkPrecD(self, prec)

    def mpf(self, n):
        return MpfIntD(n, self.prec)


class Mpf2FloatCallD:
    """the call mpf2float(dtype, value, ...) - its contract (C15): the float of type dtype nearest to value"""

    def __init__(self, dtype, value, args, kwargs):
        self.dtype, self.value, self.args, self.kwargs = dtype, value, args, kwargs


def build_fraction2float(arg):
    """fraction2float(t, q) for q = the fraction of a finite float x of type t (postcondition of float2fraction, part A:
    value(q) == value(x); fractions.Fraction keeps q in lowest terms with a positive denominator).  Two input classes:
      int    - x is an integer: q = (+-significand shifted, 1); one run per exponent field with x >= 1 in magnitude, and zero;
      nonint - x is not an integer: q = (num, denom) with num != 0, denom > 1, |num| of at most p significant bits (ghost:
               num / denom == x); one run per type.
    Goal per path: the value returned is x - either the constant returned compares equal to x, or the result is the call
    mpf2float(t, mpf(num) / denom) made under a working precision of at least p bits with no further arguments: mpf(num)
    and the division by a power of two are then exact (contracts above) and mpf2float returns the nearest float of type t,
    which is x itself (contract proved in C15)."""
    tn, E, cls = arg
    t = getattr(numpy, tn)
    import functional_algorithms.utils as U

    eb, sb = FMT[t]
    W = WIDTH[t]
    bias = (1 << (eb - 1)) - 1
    g = reglobal(U)
    g["mpf2float"] = lambda dtype, value, *a, **kw: Mpf2FloatCallD(dtype, value, a, kw)
    f = g["fraction2float"]
    sgn = z3.BitVec("s", 1)
    F = z3.BitVec("F", sb - 1)
    num_in = z3.BitVec("num", W)
    den_in = z3.BitVec("den", W)
    pre = []
    if cls == "int":
        q = (1 - bias - (sb - 1)) if E == 0 else (E - bias - (sb - 1))
        sigW = z3.ZeroExt(W - (sb - 1), F) + (z3.BitVecVal(1 << (sb - 1), W) if E else z3.BitVecVal(0, W))
        if q >= 0:
            mag = sigW << q
        elif -q < sb:
            mag = z3.LShR(sigW, -q)
            pre.append(z3.Extract(-q - 1, 0, F) == 0)  # the bits below the binary point are zero: x is an integer
        else:
            mag = z3.BitVecVal(0, W)
            pre.append(F == 0)  # a subnormal is an integer only when it is zero
        numv = z3.If(sgn == 1, -mag, mag)
        denv = 1
        base = "C13/utils.fraction2float/%s/E=%d/int" % (tn, E)
    else:
        numv = num_in
        denv = SymInt(den_in)
        lim = z3.BitVecVal(1 << (W - 3), W)
        pre += [num_in != 0, den_in > 1, den_in < lim, num_in < lim, num_in > -lim]
        base = "C13/utils.fraction2float/%s/nonint" % tn

    def run(e):
        for c in pre:
            e.assume(c)
        g["mpmath"] = type("MpmathShadowD", (), dict(mp=_MpD()))
        return f(t, SymFrac(SymInt(numv), denv))

    SymFrac.numerator = property(lambda self: self.num)
    SymFrac.denominator = property(lambda self: self.den)
    out = []
    try:
        paths = explore(run, int_width=W)
    except Exception:
        return [dict(id=base + "/engine", error=traceback.format_exc()[-800:])]
    xzero = z3.And(F == 0, z3.BoolVal(E == 0)) if cls == "int" else z3.BoolVal(False)
    for p in paths:
        pid = "%s/path=%s" % (base, p.sig())
        s = z3.Solver()
        for c in pre:
            s.add(c)
        for c in p.pc:
            s.add(c)
        s.add(F == F, sgn == sgn)
        r = p.result
        if p.exc is not None:
            goal, why = z3.BoolVal(False), "raises %r" % (p.exc,)
        elif isinstance(r, Mpf2FloatCallD):
            v = r.value
            ok = r.dtype is t and not r.args and not r.kwargs and isinstance(v, MpfQuotD) and isinstance(v.prec_mpf, int) and isinstance(v.prec_div, int) and v.prec_mpf >= sb and v.prec_div >= sb
            if ok:
                goal = z3.And(_bv(v.num, W) == numv, _bv(v.den, W) == _bv(denv, W))
                why = "mpf2float(%s, mpf(num)/denom) under %d / %d bits of working precision" % (tn, v.prec_mpf, v.prec_div)
            else:
                goal, why = z3.BoolVal(False), "mpf2float called with dtype %r, extra arguments %r %r, value %s, precisions %r %r (at least %d bits and the fraction itself are needed)" % (getattr(r.dtype, "__name__", r.dtype), r.args, r.kwargs, type(v).__name__, getattr(v, "prec_mpf", None), getattr(v, "prec_div", None), sb)
        elif isinstance(r, numpy.floating) and type(r) is t and r == 0:
            goal, why = xzero, "returns the constant %r: only for x == 0 (a fraction cannot carry the sign of zero)" % (r,)
        else:
            goal, why = z3.BoolVal(False), "returns %r: never equal to a finite %s x" % (r, "non-zero" if cls == "nonint" else "integral")
        s.add(z3.Not(goal))
        out.append(dict(id=pid + "/roundtrip", smt2=s.to_smt2().replace("(check-sat)", ""), text="fraction2float(float2fraction(x)) is x: " + why))
        if p.side:
            s = z3.Solver()
            for c in pre:
                s.add(c)
            for c in p.pc:
                s.add(c)
            s.add(z3.Not(z3.And([cond for _, cond in p.side])))
            out.append(dict(id="%s/int-model-adequate" % pid, smt2=s.to_smt2().replace("(check-sat)", ""), text="no integer operation on this path leaves the %d-bit model (%d side conditions)" % (W, len(p.side))))
    if not paths:
        out.append(dict(id=base + "/engine", error="no feasible path: vacuous"))
    return out


def part_d(rep, tier, only=None):
    fn = ("utils.fraction2float",)
    rep.under_contract(fn[0], "fraction2float(t, float2fraction(x)) hands mpf2float exactly the fraction, under at least p bits of working precision, or returns a constant equal to x; for every finite x (integers: exponent split, float16 and float32 only - integral float64 values are NOT covered by this part; non-integers: one abstract run per type, float64 included). Callee contracts: mpmath mpf(int), mpf / int (exact when the result fits the working precision), utils.mpf2float (nearest float - proved in C15)")
    args = []
    for t in TYPES:
        eb, sb = FMT[t]
        bias = (1 << (eb - 1)) - 1
        args.append((t.__name__, 0, "nonint"))
        if t is numpy.float64:
            continue  # integral float64: the path condition carries a 1200-bit negation that z3 needs ~90 s for, per exponent field (1025 of them) - not claimed; covered by the bounded stand-in (part B) only
        for E in [0] + list(range(bias, (1 << eb) - 1)):
            args.append((t.__name__, E, "int"))
    ident = lambda a: "C13/utils.fraction2float/%s/%s" % (a[0], "nonint/" if a[2] == "nonint" else "E=%d/int/" % a[1])
    if only:
        args = [a for a in args if only in ident(a)]
    ctx = mp.get_context("fork")
    with ctx.Pool(core.NPROC) as pool:
        for lst in pool.imap_unordered(build_fraction2float, args, chunksize=8):
            for d in lst:
                parts = d["id"].split("/")
                meta = dict(t=parts[2], part="D", E=int(parts[3][2:]) if parts[3].startswith("E=") else None)
                if "error" in d:
                    rep.add(core.decided(d["id"], PROP, core.ERROR, functions=fn, text=d["error"]))
                else:
                    rep.add(core.smt(d["id"], PROP, d["smt2"], functions=fn, text=d["text"], budget_s=120, meta=meta))


def replay_d(o):
    import functional_algorithms.utils as U

    meta, m = o.meta or {}, o.model or {}
    if meta.get("part") != "D":
        return dict(replayed=False, witness_class=None)
    t = getattr(numpy, meta["t"])
    eb, sb = FMT[t]
    cands = []
    if meta.get("E") is not None and o.model is not None:
        cands.append((int(m.get("s", {}).get("value", 0)) << (eb + sb - 1)) | (meta["E"] << (sb - 1)) | int(m.get("F", {}).get("value", 0)))
    else:  # the abstract non-integer class carries no float in its model: try a fixed list of non-integer floats
        fi = numpy.finfo(t)
        for v in (0.5, 1.5, -2.75, float(fi.smallest_subnormal), -float(fi.smallest_normal), float(fi.eps), 1 + float(fi.eps), float(fi.max) / 2**(fi.maxexp - 1) , 1 / 3, -1e-3):
            cands.append(int(t(v).view(UINT[t])))
    info = dict(witness_class="fraction2float %s %s" % (meta["t"], "int" if meta.get("E") is not None else "nonint"), replayed=False, tried=[])
    for bits in cands:
        x = UINT[t](bits).view(t)
        try:
            r = U.fraction2float(t, U.float2fraction(x))
            bad = not (type(r) is t and (same_bits(r, x, t) or (x == 0 and r == 0)))
            info["tried"].append(dict(x=repr(x), bits=hex(bits), got=repr(r)))
        except Exception as e:
            bad = True
            info["tried"].append(dict(x=repr(x), bits=hex(bits), raised=repr(e)))
        if bad:
            info["replayed"] = True
            break
    return info


# ---------------------------------------------------------------------------------------------
# B. bounded stand-in
# ---------------------------------------------------------------------------------------------
def sample_bits(t, tier, rnd):
    eb, sb = FMT[t]
    if t is numpy.float16:
        return list(range(1 << 16))
    nf = sb - 1
    fr = [0, 1, (1 << nf) - 1, 1 << (nf - 1), (1 << (nf - 1)) - 1, (1 << (nf - 1)) + 1, 0x5555555555555 & ((1 << nf) - 1), (1 << nf) - 2]
    nrand = 4 if tier == "quick" else 24
    out = []
    for E in range(1 << eb):
        fs = fr + [int(rnd.integers(0, 1 << nf)) for _ in range(nrand)] + [1 << int(rnd.integers(0, nf)) for _ in range(2)]
        for F in fs:
            for s in (0, 1):
                out.append((s << (eb + nf)) | (E << nf) | F)
    return out


def same_bits(a, b, t):
    return a.view(UINT[t]) == b.view(UINT[t])


def mpf_value(m):
    sign, man, exp, bc = m._mpf_
    v = Fraction(int(man)) * Fraction(2) ** int(exp)
    return -v if sign else v


def parse_bin(b):
    """independent reader of the `[-]1.bbbbp[+-]e` notation"""
    neg = b.startswith("-")
    if neg:
        b = b[1:]
    mant, ex = b.split("p")
    if "." in mant:
        ip, fp = mant.split(".")
    else:
        ip, fp = mant, ""
    v = Fraction(int(ip + fp, 2), 1 << len(fp)) * Fraction(2) ** int(ex)
    return -v if neg else v


CHECKS_B = ("float2fraction", "fraction2float", "float2bin", "bin2float", "float2mpf", "mpf2float", "mpf2expansion", "mpf2multiword", "float2expansion")


def bounded_chunk(arg):
    """returns {check name: first failures} for a chunk of bit patterns"""
    tn, chunk = arg
    import warnings

    import mpmath

    import functional_algorithms.utils as U

    warnings.simplefilter("ignore")
    t = getattr(numpy, tn)
    eb, sb = FMT[t]
    fails = {}
    n = 0

    def fail(name, bits, **kw):
        fails.setdefault(name, [])
        if len(fails[name]) < 3:
            fails[name].append(dict(kw, bits=hex(bits), t=tn))

    ctx = mpmath.mp
    with mpmath.workprec(sb + 10), numpy.errstate(all="ignore"):
        for bits in chunk:
            n += 1
            x = UINT[t](bits).view(t)
            isnan, isinf = bool(numpy.isnan(x)), bool(numpy.isinf(x))
            fin = not (isnan or isinf)
            negzero = fin and x == 0 and bits != 0
            v = exact_value(bits, t) if fin else None
            # -- fraction
            if not isnan:
                try:
                    q = U.float2fraction(x)
                    if fin and q != v:
                        fail("float2fraction", bits, got=str(q), want=str(v))
                    r = U.fraction2float(t, q)
                    if not (same_bits(r, x, t) or (negzero and same_bits(r, t(0), t))):
                        fail("fraction2float", bits, got=repr(r), want=repr(x))
                except Exception as e:
                    fail("float2fraction", bits, raised=repr(e))
            # -- binary string
            try:
                b = U.float2bin(x)
                if fin and x != 0 and parse_bin(b) != v:
                    fail("float2bin", bits, got=b, want=str(v))
                r = U.bin2float(t, b)
                if isnan:
                    ok = bool(numpy.isnan(r))
                else:
                    ok = same_bits(r, x, t)
                if not ok:
                    fail("bin2float", bits, got=repr(r), want=repr(x), string=b)
            except Exception as e:
                fail("float2bin", bits, raised=repr(e))
            # -- mpf
            try:
                m = U.float2mpf(ctx, x)
                if fin and mpf_value(m) != v:
                    fail("float2mpf", bits, got=str(mpf_value(m)), want=str(v))
                if fin and U.float2fraction(m) != v:
                    fail("float2fraction", bits, got=str(U.float2fraction(m)), want=str(v), via="mpf branch")
                if isnan and not ctx.isnan(m) or isinf and not (ctx.isinf(m) and (m < 0) == bool(x < 0)):
                    fail("float2mpf", bits, got=repr(m), want=repr(x))
                r = U.mpf2float(t, m)
                ok = bool(numpy.isnan(r)) if isnan else (same_bits(r, x, t) or (negzero and same_bits(r, t(0), t)))
                if not ok:
                    fail("mpf2float", bits, got=repr(r), want=repr(x))
                # flushing only touches subnormals: a normal float comes back unchanged with flush_subnormals=True as well
                if fin and abs(x) >= numpy.finfo(t).smallest_normal:
                    rf = U.mpf2float(t, m, flush_subnormals=True)
                    if not same_bits(rf, x, t):
                        fail("mpf2float", bits, got=repr(rf), want=repr(x), flush_subnormals=True)
                if fin and x != 0:
                    e = U.mpf2expansion(t, m)
                    back = U.expansion2mpf(ctx, e)
                    if mpf_value(back) != v or not same_bits(U.mpf2float(t, back), x, t):
                        fail("mpf2expansion", bits, got=[repr(w) for w in e], want=repr(x))
                    w = U.mpf2multiword(t, m)
                    if not w or mpf_value(U.multiword2mpf(ctx, w)) != v or not same_bits(U.mpf2float(t, U.multiword2mpf(ctx, w)), x, t):
                        fail("mpf2multiword", bits, got=[repr(u) for u in w], want=repr(x))
                    e2 = U.float2expansion(t, x)
                    if sum((exact_value(int(u.view(UINT[t])), t) for u in e2), Fraction(0)) != v:
                        fail("float2expansion", bits, got=[repr(u) for u in e2], want=repr(x))
            except Exception as e:
                fail("float2mpf", bits, raised=repr(e)[:300])
    return tn, n, fails


def cross_chunk(arg):
    """wider value -> expansion / multiword of a narrower type and back: exact whenever every bit of the value lies on the
    narrower type's grid (a multiple of its smallest subnormal, within its range)"""
    tn, wn, seed, count = arg
    import warnings

    import mpmath

    import functional_algorithms.utils as U

    warnings.simplefilter("ignore")
    t, w = getattr(numpy, tn), getattr(numpy, wn)
    rnd = numpy.random.default_rng(seed)
    fi = numpy.finfo(t)
    eb, sb = FMT[t]
    fails = {}
    n = 0

    def fail(name, x, **kw):
        fails.setdefault(name, [])
        if len(fails[name]) < 3:
            fails[name].append(dict(kw, x=float(x).hex(), t=tn, wide=wn))

    ctx = mpmath.mp
    with mpmath.workprec(FMT[w][1] + 10), numpy.errstate(all="ignore"):
        for _ in range(count):
            # a = a finite value of t, b = a smaller value of t, far enough below a not to overlap: a + b exact in w
            a = UINT[t](int(rnd.integers(1 << (sb - 1), ((1 << eb) - 1) << (sb - 1)))).view(t)
            ea = int(numpy.frexp(a)[1])
            eb_ = ea - sb - int(rnd.integers(0, max(1, FMT[w][1] - 2 * sb)))
            b = numpy.ldexp(t(1) + t(rnd.integers(0, 1 << (sb - 1))) * t(fi.eps), eb_ - 1)
            if rnd.integers(0, 2):
                a = -a
            if rnd.integers(0, 2):
                b = -b
            x = w(a) + w(b)
            v = Fraction(float(a)) + Fraction(float(b))
            if not numpy.isfinite(x) or Fraction(float(x)) != v or b == 0:
                continue
            n += 1
            for inp, label in ((x, "numpy"), (float(x), "python-float")):
                try:
                    e = U.float2expansion(t, inp)
                    if sum((Fraction(float(u)) for u in e), Fraction(0)) != v:
                        fail("float2expansion[%s]" % label, x, got=[repr(u) for u in e], want=[repr(a), repr(b)])
                except Exception as ex:
                    fail("float2expansion[%s]" % label, x, raised=repr(ex)[:300])
            try:
                m = U.float2mpf(ctx, x)
                e = U.mpf2expansion(t, m)
                if mpf_value(U.expansion2mpf(ctx, e)) != v:
                    fail("mpf2expansion[cross]", x, got=[repr(u) for u in e], want=[repr(a), repr(b)])
                full = list(e)
                for k in (1, 2, 3):
                    ek = U.mpf2expansion(t, m, length=k, functional=True)
                    if len(ek) != k or [float(u) for u in ek] != ([float(u) for u in full] + [0.0] * k)[:k]:
                        fail("mpf2expansion[cross]", x, got=[repr(u) for u in ek], want=[repr(u) for u in full], length=k)
                    fk = U.fraction2expansion(t, v, length=k, functional=True)
                    if len(fk) != k or (len(full) <= k and sum((Fraction(float(u)) for u in fk), Fraction(0)) != v):
                        fail("fraction2expansion[cross]", x, got=[repr(u) for u in fk], want=[repr(u) for u in full], length=k)
                    mk = U.mpf2multiword(t, m, max_length=k)
                    if len(mk) > k or (mk and m._mpf_[3] <= sb * len(mk) and mpf_value(U.multiword2mpf(ctx, mk)) != v):
                        fail("mpf2multiword[cross]", x, got=[repr(u) for u in mk], want=[repr(a), repr(b)], max_length=k)
                ne = U.number2expansion(t, v)
                if sum((Fraction(float(u)) for u in ne), Fraction(0)) != v:
                    fail("fraction2expansion[cross]", x, got=[repr(u) for u in ne], want=[repr(a), repr(b)], via="number2expansion(Fraction)")
                mw = U.mpf2multiword(t, m)
                # documented contract of the fixed-width multiword: exact when x.bc <= p * len(result) (otherwise truncated)
                if not mw or (m._mpf_[3] <= sb * len(mw) and mpf_value(U.multiword2mpf(ctx, mw)) != v):
                    fail("mpf2multiword[cross]", x, got=[repr(u) for u in mw], want=[repr(a), repr(b)])
            except Exception as ex:
                fail("mpf2expansion[cross]", x, raised=repr(ex)[:300])
    return "%s<-%s" % (tn, wn), n, fails


def special_values_job(tn):
    """zero, infinities and NaN through the expansion / multiword converters (each call under a 5 s alarm)"""
    import signal
    import warnings

    import mpmath

    import functional_algorithms.utils as U

    warnings.simplefilter("ignore")
    t = getattr(numpy, tn)
    out = {"special-values/mpf2multiword": [], "special-values/mpf2expansion": [], "special-values/float2fraction[nan]": []}

    class TO(Exception):
        pass

    def h(*a):
        raise TO()

    signal.signal(signal.SIGALRM, h)
    ctx = mpmath.mp
    with mpmath.workprec(FMT[t][1] + 10), numpy.errstate(all="ignore"):
        for x in (t(0.0), t(numpy.inf), t(-numpy.inf), t(numpy.nan)):
            m = U.float2mpf(ctx, x)
            for name, conv, back in (("special-values/mpf2multiword", lambda: U.mpf2multiword(t, m), lambda w: U.multiword2mpf(ctx, w)), ("special-values/mpf2expansion", lambda: U.mpf2expansion(t, m), lambda w: U.expansion2mpf(ctx, w))):
                signal.alarm(5)
                try:
                    w = conv()
                    r = U.mpf2float(t, back(w))
                    ok = bool(numpy.isnan(r)) if numpy.isnan(x) else bool(r == x)
                    if not ok:
                        out[name].append(dict(x=repr(x), words=[repr(u) for u in w], back=repr(r)))
                except TO:
                    out[name].append(dict(x=repr(x), problem="does not terminate within 5 s"))
                except Exception as e:
                    out[name].append(dict(x=repr(x), raised=repr(e)[:160]))
                finally:
                    signal.alarm(0)
        # float2expansion / number2expansion of values that are infinite, NaN, or finite but beyond the range of the word type
        out["special-values/float2expansion"] = []
        wide = {"float16": numpy.float32(1e30), "float32": numpy.float64(1e300), "float64": None}[tn]
        for x in (t(numpy.inf), t(-numpy.inf), t(numpy.nan)) + ((wide,) if wide is not None else ()):
            signal.alarm(5)
            try:
                w = U.float2expansion(t, x)
                ok = len(w) >= 1 and (numpy.isnan(w[0]) if numpy.isnan(x) else bool(numpy.isinf(w[0]) and (w[0] > 0) == (x > 0)))
                if not ok:
                    out["special-values/float2expansion"].append(dict(x=repr(x), words=[repr(u) for u in w]))
            except TO:
                out["special-values/float2expansion"].append(dict(x=repr(x), problem="does not terminate within 5 s"))
            except Exception as e:
                out["special-values/float2expansion"].append(dict(x=repr(x), raised=repr(e)[:160]))
            finally:
                signal.alarm(0)
        # NaN has no fraction: silently returning a finite value turns NaN into infinity on the way back
        try:
            q = U.float2fraction(t(numpy.nan))
            r = U.fraction2float(t, q)
            if not numpy.isnan(r):
                out["special-values/float2fraction[nan]"].append(dict(x="nan", fraction=str(q)[:40], back=repr(r)))
        except (ValueError, TypeError):
            pass  # refusing is fine
    return tn, out


def part_b(rep, tier):
    rnd = numpy.random.default_rng(core.SEED)
    jobs = []
    counts = {}
    for t in TYPES:
        bits = sample_bits(t, tier, rnd)
        counts[t.__name__] = len(bits)
        k = max(1, len(bits) // (core.NPROC * 4))
        for i in range(0, len(bits), k):
            jobs.append((t.__name__, bits[i : i + k]))
    ctx = mp.get_context("fork")
    agg = {}
    seen = {}
    with ctx.Pool(core.NPROC) as pool:
        for tn, n, fails in pool.imap_unordered(bounded_chunk, jobs):
            seen[tn] = seen.get(tn, 0) + n
            for name, lst in fails.items():
                agg.setdefault((tn, name), []).extend(lst)
        cj = []
        ncross = 2000 if tier == "quick" else 20000
        for tn, wn in (("float16", "float32"), ("float16", "float64"), ("float32", "float64")):
            for k in range(core.NPROC // 2):
                cj.append((tn, wn, core.SEED * 1000 + k, ncross // (core.NPROC // 2)))
        for key, n, fails in pool.imap_unordered(cross_chunk, cj):
            seen[key] = seen.get(key, 0) + n
            for name, lst in fails.items():
                agg.setdefault((key, name), []).extend(lst)
    names = set()
    for t in TYPES:
        for name in CHECKS_B:
            names.add((t.__name__, name))
    for key in ("float16<-float32", "float16<-float64", "float32<-float64"):
        for name in ("float2expansion[numpy]", "float2expansion[python-float]", "mpf2expansion[cross]", "mpf2multiword[cross]", "fraction2expansion[cross]"):
            names.add((key, name))
    for tn, name in sorted(names):
        lst = agg.get((tn, name), [])
        rep.add(core.decided("C13/bounded/%s/%s" % (name, tn), PROP, not lst, functions=("utils.%s" % name.split("[")[0],), text="bounded stand-in: %s on %d inputs" % (name, seen.get(tn, 0)), detail=dict(failures=lst[:3], inputs=seen.get(tn, 0)), kind="bounded", solver="native-run", meta=dict(part="B", fails=lst[:3])))
    with mp.get_context("fork").Pool(3) as pool:
        for tn, out in pool.map(special_values_job, [t.__name__ for t in TYPES]):
            for name, lst in sorted(out.items()):
                rep.add(core.decided("C13/bounded/%s/%s" % (name, tn), PROP, not lst, functions=("utils.%s" % name.split("/")[1].split("[")[0],), text="bounded stand-in: zero, infinities and NaN through %s and back" % name.split("/")[1], detail=dict(failures=lst[:4]), kind="bounded", solver="native-run", meta=dict(part="B", fails=lst[:4], special=name)))
    rep.bounded.append(dict(what="float2bin, bin2float, float2mpf, mpf2float, fraction2float, mpf2expansion/expansion2mpf, mpf2multiword/multiword2mpf, float2expansion executed natively; exact values as Fractions from the bit pattern", bound="every float16 bit pattern (65536); float32/float64: every exponent-field value x 2 signs x %d fraction fields (boundary + seeded pseudo-random) = %d / %d inputs; cross-type expansions: %d seeded values per type pair" % (len(sample_bits(numpy.float32, tier, numpy.random.default_rng(0))) // 512, counts["float32"], counts["float64"], ncross), counted_as_proved=False))


def replay_b(o):
    meta = o.meta or {}
    if meta.get("part") != "B":
        return dict(replayed=False, witness_class=None)
    fails = meta.get("fails") or []
    return dict(replayed=bool(fails), failing_inputs=fails, witness_class=witness_class_b(o.id, fails))


def witness_class_b(oid, fails):
    name = oid.split("/")[2]
    if name == "special-values":
        return "special-values/%s: %s" % (oid.split("/")[3], ", ".join(sorted({str(f.get("x")) for f in fails})))
    if fails and all(int(f.get("bits", "0x1"), 16) in (0x8000, 0x80000000, 0x8000000000000000) for f in fails):
        return "%s: negative zero only" % name
    return "%s: %s" % (name, ", ".join(sorted({str(f.get("bits") or f.get("x")) for f in fails})[:3]))


def build(tier, only=None):
    rep = core.Report(PROP, tier)
    rep.trust("z3 5.1 QF_BV (constant shifts, additions, comparisons at up to 2400 bits)", "IEEE 754 value definition used as the specification", "CPython / NumPy / mpmath executing the bounded stand-in")
    rep.assume(
        "part A: fractions.Fraction(num, denom) has the value num/denom (library); Python ints are modelled by bit-vectors of 64 / 256 / 1200 bits with a no-overflow side obligation per operation",
        "part A covers finite inputs; float2fraction of infinities (a 2**maxexp sentinel) and NaN are exercised in part B only",
        "part B is a bounded stand-in, not a proof: mpmath-based and string-based converters are outside what the symbolic engine models",
        "sign of zero: fractions and mpf numbers cannot carry it; -0.0 -> +0.0 is accepted for the fraction / mpf / expansion round trips",
    )
    rep.extraction_drops.append("float2fraction: the code object is rebuilt over a shadow namespace (isinstance, int, type, fractions.Fraction -> pair holder); list / float / mpf branches are not taken")
    if only is None or "float2fraction/" in only or "canary" in only:
        part_a(rep, tier, only)
    if only is None or "float2mpf/" in only:
        part_c(rep, tier, only)
    if only is None or "fraction2float/" in only:
        part_d(rep, tier, only)
    if only is None or "bounded" in only:
        part_b(rep, tier)
    rep.replayers["C13/utils.fraction2float"] = replay_d
    rep.replayers["C13/utils.float2mpf"] = replay_c
    rep.replayers["C13/utils.float2fraction"] = replay_a
    rep.replayers["C13/bounded"] = replay_b
    return rep


def main(tier, only=None):
    rep = build(tier, only)
    if only:
        rep.obls = [o for o in rep.obls if only in o.id]
    return rep.finish()


def replay(path):
    d = json.load(open(path))
    o = core.Obligation(id=d["obligation"], prop=PROP, model=d.get("model"), meta=d.get("meta") or {})
    if (o.meta or {}).get("part") == "A":
        info = replay_a(o)
    elif (o.meta or {}).get("part") == "C":
        info = replay_c(o)
    elif (o.meta or {}).get("part") == "D":
        info = replay_d(o)
    else:
        # re-run the named inputs natively
        fails = (o.meta or {}).get("fails") or []
        again = []
        for f in fails:
            if "bits" in f:
                tn, n, fl = bounded_chunk((f["t"], [int(f["bits"], 16)]))
                again.append(dict(bits=f["bits"], still_fails=bool(fl), detail=fl))
        info = dict(replayed=any(a["still_fails"] for a in again) if again else bool(fails), reruns=again, recorded=fails)
    print(json.dumps(info, indent=1, default=str))
    return 1 if info.get("replayed") else 0
