"""C10, BOUNDED STAND-IN (never counted as proved) for the cases the proofs do not claim: every transformation at float64,
the last addition of 2Sum at float32, and the two-operand Dekker products at every format.  The real functions (and the
traced copies used inside the complex log / log1p algorithms) run natively on directed operands - exponent boundaries,
few-bit significands, ties, cancellation, extremes of the documented domain - with exact rational bookkeeping:
the pair sums to the exact result, the high part is the correctly rounded operation, the splitter halves fit.
"""
from __future__ import annotations

import multiprocessing as mp
import warnings
from fractions import Fraction

import numpy

from vf import core

TYPES = ("float16", "float32", "float64")


def F(x):
    return Fraction(float(x))


def nbits(v):
    """number of significant bits of a finite float"""
    fr = abs(F(v))
    if fr == 0:
        return 0
    n, d = fr.numerator, fr.denominator
    while n % 2 == 0:
        n //= 2
    return n.bit_length()


def operand(dtype, rng, emin=None, emax=None):
    fi = numpy.finfo(dtype)
    p = fi.nmant + 1
    lo = int(fi.minexp) - p + 1 if emin is None else emin
    hi = int(fi.maxexp) - 1 if emax is None else emax
    k = int(rng.integers(0, 7))
    e = int(rng.integers(lo, hi + 1))
    if k == 0:
        m = [1 << (p - 1), (1 << (p - 1)) + 1, (1 << p) - 1][int(rng.integers(0, 3))]
    elif k == 1:
        m = (1 << (p - 1)) | (1 << int(rng.integers(0, p - 1)))
    elif k == 2:
        m = int(rng.integers(1 << (p // 2 - 1), 1 << (p // 2))) << (p - p // 2)
    elif k == 3:
        m = ((1 << (p - 1)) | (1 << ((p + 1) // 2)) | int(rng.integers(0, 4))) ^ int(rng.integers(0, 2))
    else:
        m = int(rng.integers(1 << (p - 1), 1 << p))
    with numpy.errstate(all="ignore"):
        v = numpy.ldexp(dtype(m), e - p + 1)
    if not numpy.isfinite(v):
        v = fi.max
    return -v if rng.integers(0, 2) else v


_FUN = {}


def traced(which, t, fast=False):
    """the copies in algorithms.py, through the package's own NumPy pipeline (cached per process)"""
    key = (which, t, fast)
    if key in _FUN:
        return _FUN[key]
    import functional_algorithms as fa
    import functional_algorithms.algorithms as A
    from functional_algorithms import targets

    def prog(ctx, x, y=None):
        if which == "split":
            C = A.get_veltkamp_splitter_constant(ctx, ctx.constant("largest", x))
            r = A.split_veltkamp(ctx, C, x)
        elif which == "square":
            C = A.get_veltkamp_splitter_constant(ctx, ctx.constant("largest", x))
            xh, xl = A.split_veltkamp(ctx, C, x)
            r = A.square_dekker(ctx, x, xh, xl)
        else:
            r = A.add_2sum(x, y, fast=fast)
        return ctx.list(list(r))

    c2 = fa.Context(paths=[A])
    if which == "add":

        def f2(ctx, x: float, y: float):
            return prog(ctx, x, y)

        g = c2.trace(f2, t, t)
    else:

        def f1(ctx, x: float):
            return prog(ctx, x)

        g = c2.trace(f1, t)
    _FUN[key] = targets.numpy.as_function(g.rewrite(targets.numpy), debug=0)
    return _FUN[key]


def case_list():
    out = []
    for fast in (False, True):
        for fix in (False, True):
            out.append(("floating_point_algorithms.add_2sum[fast=%s,fix_overflow=%s]" % (fast, fix), "sum", dict(fast=fast)))
    for scale in (False, True):
        out.append(("floating_point_algorithms.split_veltkamp[scale=%s]" % scale, "split", dict(scale=scale)))
        out.append(("floating_point_algorithms.mul_dekker[scale=%s]" % scale, "prod", dict(scale=scale)))
    out += [("utils.add_2sum", "sum", {}), ("utils.add_fast2sum", "sum", dict(fast=True)), ("utils.double_2sum", "dbl", {}), ("utils.double_fast2sum", "dbl", {}), ("utils.split_veltkamp", "split", {}), ("utils.multiply_dekker", "prod", {}), ("utils.square_dekker", "sq", {})]
    out += [("algorithms.split_veltkamp+get_veltkamp_splitter_constant", "split", {}), ("algorithms.square_dekker", "sq", {}), ("algorithms.add_2sum[fast=False]", "sum", {}), ("algorithms.add_2sum[fast=True]", "sum", dict(fast=True))]
    out += [("apmath.split", "split", dict(scale=True)), ("apmath.two_sum", "sum", {}), ("apmath.quick_two_sum", "sum", dict(fast=True)), ("apmath.two_prod", "prod", dict(scale=True))]
    return out


def call(name, t, ctx, x, y):
    import functional_algorithms.apmath as AP
    import functional_algorithms.floating_point_algorithms as FP
    import functional_algorithms.utils as U

    base, opts = name, {}
    if "[" in name:
        base, o = name[:-1].split("[")
        for kv in o.split(","):
            k, v = kv.split("=")
            opts[k] = v == "True"
    if base == "floating_point_algorithms.add_2sum":
        return FP.add_2sum(ctx, x, y, **opts)
    if base == "floating_point_algorithms.split_veltkamp":
        return FP.split_veltkamp(ctx, x, **opts)
    if base == "floating_point_algorithms.mul_dekker":
        return FP.mul_dekker(ctx, x, y, **opts)
    if base.startswith("utils."):
        f = getattr(U, base.split(".")[1])
        return f(x, y) if base.split(".")[1] in ("add_2sum", "add_fast2sum", "multiply_dekker") else f(x)
    if base == "apmath.split":
        return AP.split(ctx, x)
    if base == "apmath.two_sum":
        return AP.two_sum(ctx, x, y)
    if base == "apmath.quick_two_sum":
        return AP.quick_two_sum(ctx, x, y)
    if base == "apmath.two_prod":
        return AP.two_prod(ctx, x, y)
    if base.startswith("algorithms.split"):
        return tuple(traced("split", t)(x))
    if base.startswith("algorithms.square"):
        return tuple(traced("square", t)(x))
    if base.startswith("algorithms.add_2sum"):
        return tuple(traced("add", t, opts.get("fast", False))(x, y))
    raise KeyError(name)


def job(arg):
    tn, name, kind, opts, seed, count = arg
    warnings.simplefilter("ignore")
    import functional_algorithms.utils as U

    from vf.contracts.C11_bounded import rn

    t = getattr(numpy, tn)
    fi = numpy.finfo(t)
    p = fi.nmant + 1
    s = (p + 1) // 2
    rng = numpy.random.default_rng(seed)
    ctx = U.NumpyContext(t)
    fails = []
    n = 0
    big = F(fi.max)
    grid = F(fi.smallest_subnormal)

    def rec(**kw):
        if len(fails) < 3:
            fails.append({k: (repr(v) if isinstance(v, numpy.floating) else v) for k, v in kw.items()})

    with numpy.errstate(all="ignore"):
        for _ in range(count):
            x, y = operand(t, rng), operand(t, rng)
            mode = int(rng.integers(0, 5))
            if kind == "sum":
                if mode == 0:  # cancellation / neighbours
                    y = -x * t(1 + int(rng.integers(-2, 3)) * float(fi.eps))
                elif mode == 1:  # y half an ulp of x (ties)
                    y = numpy.ldexp(t(1), int(numpy.frexp(x)[1]) - p - 1) * t(1 if rng.integers(0, 2) else -1) if x != 0 else y
                if not (numpy.isfinite(x) and numpy.isfinite(y)) or abs(F(x)) >= big / 4 or abs(F(y)) >= big / 4:
                    continue
                if opts.get("fast") and abs(x) < abs(y):
                    x, y = y, x
                n += 1
                r = call(name, t, ctx, x, y)
                hi, lo = t(r[0]), t(r[1])
                if not (numpy.isfinite(hi) and numpy.isfinite(lo)) or F(hi) + F(lo) != F(x) + F(y):
                    rec(what="s + t != x + y", x=x, y=y, s=hi, t=lo)
                elif hi != rn(t, F(x) + F(y)):
                    rec(what="s != RN(x + y)", x=x, y=y, s=hi)
            elif kind == "dbl":
                if abs(F(x)) >= big / 4:
                    continue
                n += 1
                r = call(name, t, ctx, x, None)
                hi, lo = t(r[0]), t(r[1])
                if F(hi) + F(lo) != 2 * F(x):
                    rec(what="s + t != x + x", x=x, s=hi, t=lo)
            elif kind == "split":
                if not opts.get("scale") and abs(F(x)) > big / (1 << (s + 1)):
                    continue
                n += 1
                r = call(name, t, ctx, x, None)
                hi, lo = t(r[0]), t(r[1])
                if not (numpy.isfinite(hi) and numpy.isfinite(lo)) or F(hi) + F(lo) != F(x):
                    rec(what="xh + xl != x", x=x, xh=hi, xl=lo)
                elif nbits(hi) > s or nbits(lo) > s:
                    rec(what="a half does not fit %d bits" % s, x=x, xh=hi, xl=lo, bits=[nbits(hi), nbits(lo)])
            else:  # prod, sq
                if kind == "sq":
                    y = x
                if mode == 0 and kind == "prod":  # product just below a power of two / a tie
                    y = rn(t, Fraction(1 << int(rng.integers(1, 8))) / F(x)) if x != 0 else y
                if not numpy.isfinite(y):
                    continue
                xy = F(x) * F(y)
                lim = big / (1 << (s + 2))
                if not numpy.isfinite(y) or abs(xy) >= big / 4 or (not opts.get("scale") and (abs(F(x)) > lim or abs(F(y)) > lim)):
                    continue
                # the error term must be representable: every bit of the exact product on the subnormal grid
                if xy != 0 and (xy / grid).denominator != 1:
                    continue
                n += 1
                r = call(name, t, ctx, x, y) if kind == "prod" else call(name, t, ctx, x, None)
                hi, lo = t(r[0]), t(r[1])
                if not (numpy.isfinite(hi) and numpy.isfinite(lo)) or F(hi) + F(lo) != xy:
                    rec(what="h + l != x * y", x=x, y=y, h=hi, l=lo)
                elif hi != rn(t, xy):
                    rec(what="h != RN(x * y)", x=x, y=y, h=hi)
    return tn, name, n, fails


def run(rep, tier, prop="C10"):
    per = {"float16": 4000, "float32": 3000, "float64": 3000} if tier == "quick" else {"float16": 40000, "float32": 30000, "float64": 30000}
    jobs = []
    for tn in TYPES:
        for name, kind, opts in case_list():
            jobs.append((tn, name, kind, opts, core.SEED * 32452843 + sum(map(ord, tn + name)), per[tn]))
    res = {}
    with mp.get_context("fork").Pool(core.NPROC) as pool:
        for tn, name, n, fails in pool.imap_unordered(job, jobs):
            res[(tn, name)] = (n, fails)
    for tn in TYPES:
        for name, kind, opts in case_list():
            n, fails = res[(tn, name)]
            rep.add(core.decided("%s/bounded/%s/%s" % (prop, name, tn), prop, not fails and n > 0, functions=(name.split("[")[0],), text="bounded stand-in: %s on %d directed operand tuples inside the documented domain" % (name, n), detail=dict(failures=fails, inputs=n), kind="bounded", solver="native-run", meta=dict(part="bounded", fails=fails, t=tn, case=name)))
    # the documented domains of the overflow-repairing and fma-assuming variants, at their edges (directed, separate obligations)
    import functional_algorithms.apmath as AP0
    import functional_algorithms.floating_point_algorithms as FP0
    import functional_algorithms.utils as U0

    from vf.contracts.C11_bounded import rn as _rn

    edge = {}
    with warnings.catch_warnings(), numpy.errstate(all="ignore"):
        warnings.simplefilter("ignore")
        for tn in TYPES:
            t = getattr(numpy, tn)
            fi = numpy.finfo(t)
            ctx = U0.NumpyContext(t)
            ulp_top = numpy.ldexp(t(1), int(fi.maxexp) - 1 - int(fi.nmant))
            bad = []
            for k in (1, 2, 3, 7, 16, 33):
                for y in (fi.max, fi.max - ulp_top * t(3)):
                    x = -(ulp_top * t(k)) / t(2)
                    for sx, sy in ((x, y), (-x, -y)):
                        if not numpy.isfinite(_rn(t, F(sx) + F(sy))):
                            continue
                        r = FP0.add_2sum(ctx, sx, sy, fix_overflow=True)
                        if not (numpy.isfinite(r[0]) and numpy.isfinite(r[1])) or F(r[0]) + F(r[1]) != F(sx) + F(sy):
                            bad.append(dict(x=repr(sx), y=repr(sy), s=repr(r[0]), t=repr(r[1])))
            edge[("add_2sum[fix_overflow=True]@top-of-range", tn)] = bad
            bad = []
            root = numpy.sqrt(fi.max)
            for k in range(1, 40, 3):
                x = root * t(1 - k * float(fi.eps))
                y = root * t(1 - (k + 5) * float(fi.eps) * 3)
                xy = F(x) * F(y)
                if not numpy.isfinite(_rn(t, xy)):
                    continue
                r = AP0.two_prod(ctx, x, y, scale=True, fix_overflow=True)
                if not (numpy.isfinite(r[0]) and numpy.isfinite(r[1])) or F(r[0]) + F(r[1]) != xy:
                    bad.append(dict(x=repr(x), y=repr(y), h=repr(r[0]), l=repr(r[1])))
            edge[("two_prod[scale=True,fix_overflow=True]@near-sqrt-largest", tn)] = bad
            bad = []
            for x, y in ((0.001, 1000.0), (1.5, -1000.25), (3e-3, 7.0), (-0.75, 513.0)):
                r = AP0.two_sum(ctx, t(x), t(y), assume_fma=True)
                if F(r[0]) + F(r[1]) != F(t(x)) + F(t(y)):
                    bad.append(dict(x=repr(t(x)), y=repr(t(y)), s=repr(r[0]), t=repr(r[1])))
            edge[("two_sum[assume_fma=True]@smaller-first-operand", tn)] = bad
    for (name, tn), bad in sorted(edge.items()):
        rep.add(core.decided("%s/bounded/edge/%s/%s" % (prop, name, tn), prop, not bad, functions=("floating_point_algorithms.add_2sum" if name.startswith("add") else "apmath." + name.split("[")[0],), text="bounded stand-in (directed): %s returns an exact pair" % name, detail=dict(failures=bad[:3]), kind="bounded", solver="native-run", meta=dict(part="bounded", fails=bad[:3], t="-", case="edge/" + name)))
    # option combinations must at least return a pair (finite cases)
    import functional_algorithms.floating_point_algorithms as FP
    import functional_algorithms.utils as U

    bad = []
    for tn in TYPES:
        t = getattr(numpy, tn)
        ctx = U.NumpyContext(t)
        for assume_fma in (False, True):
            for fix in (False, True):
                for scale in (False, True):
                    try:
                        with warnings.catch_warnings(), numpy.errstate(all="ignore"):
                            warnings.simplefilter("ignore")
                            r = FP.mul_dekker(ctx, t(1.5), t(2.5), scale=scale, fix_overflow=fix, assume_fma=assume_fma)
                        if len(r) != 2 or F(r[0]) + F(r[1]) != F(t(1.5)) * F(t(2.5)):
                            bad.append(dict(t=tn, assume_fma=assume_fma, fix_overflow=fix, scale=scale, got=[repr(v) for v in r]))
                    except Exception as e:
                        bad.append(dict(t=tn, assume_fma=assume_fma, fix_overflow=fix, scale=scale, raised=repr(e)[:160]))
    rep.add(core.decided("%s/bounded/mul_dekker-option-combinations" % prop, prop, not bad, functions=("floating_point_algorithms.mul_dekker",), text="mul_dekker(1.5, 2.5) returns the exact pair for every combination of scale / fix_overflow / assume_fma", detail=dict(failures=bad[:4]), kind="bounded", solver="native-run", meta=dict(part="bounded", fails=bad[:4], t="-", case="mul_dekker-option-combinations")))
    rep.bounded.append(dict(what="every transformation of the check (incl. the traced copies of algorithms.py) executed natively: exact pair, high part correctly rounded, splitter halves fit", bound="%s directed operand tuples per case and format (seeded; exponent boundaries, few-bit significands, ties, cancellation), restricted to the documented domains" % per, counted_as_proved=False))


def replay(o):
    meta = o.meta or {}
    if meta.get("part") != "bounded":
        return None
    fails = meta.get("fails") or []
    if meta.get("t") == "-":
        return dict(replayed=bool(fails), failing_inputs=fails, witness_class=str(meta.get("case")))
    return dict(replayed=bool(fails), failing_inputs=fails, witness_class="%s %s" % (meta.get("case"), meta.get("t")))
