"""C05 - executable targets compute exactly the traced graph (Python, NumPy, C++).

Structural induction over the graph; every obligation is about ONE template, ONE printer step or ONE registration:
  O1  template tables (python / numpy / cpp kind_to_target): each string template, instantiated with identifier
      operands, (a) parses / compiles, (b) has the operator or library function and operand order of an independent
      spec table (AST comparison for Python/NumPy), (c) names a function that exists in the library, and (d) evaluates
      like the reference semantics of the kind on a grid of special and asymmetric operands (bit for bit for
      operators and predicates, within the library's own function otherwise).  C++: g++ is the decision procedure.
  O2  printer step (PrinterBase.tostring, real code for ONE node, recursive calls replaced by their contract):
      returns the reference name iff need_ref; appends exactly one assignment of that name, after the operands'
      assignments; never re-assigns a defined name; debug >= 1 adds the dtype assertion for that name only.
  O3  need_ref counting: a sub-expression used twice gets need_ref = True (bound once, not re-evaluated).
  O4  reference names (Context._register_reference, make_ref): the returned name is registered to that expression
      and was not registered to a different one; every other entry is unchanged (exhaustive small ghost states).
  O5  constants: printed as the declared type applied to the value's text (NumPy), type = type_to_target[get_type].
  O7  list arguments (PrinterBase.init_arguments): each used item is bound once, before use, from its own index.
  O8  auto-generated reference names (make_ref / toidentifier) are distinct for different expressions of one graph.
From O1-O5 by induction the emitted program is in single-assignment form and computes, at every name, the library
primitive of the node on the operand values in order, i.e. the direct evaluation of the graph.
"""
from __future__ import annotations

import ast
import itertools
import json
import math
import os
import re
import subprocess
import tempfile
import traceback

import numpy

from vf import core

PROP = "C05"

# --------------------------------------------------------------------------------------------- independent spec
BIN = dict(add="Add", subtract="Sub", multiply="Mult", divide="Div", remainder="Mod", floor_divide="FloorDiv", pow="Pow", bitwise_and="BitAnd", bitwise_or="BitOr", bitwise_xor="BitXor", bitwise_left_shift="LShift", bitwise_right_shift="RShift")
CMP = dict(lt="Lt", le="LtE", gt="Gt", ge="GtE", eq="Eq", ne="NotEq")
UN = dict(negative="USub", positive="UAdd", bitwise_invert="Invert")
# library function names per target, written from the libraries' documentation (not from the templates)
PYMATH = {k: k for k in "acos acosh asinh atan atanh atan2 cos cosh sin sinh tan tanh exp expm1 log log1p log2 log10 ceil floor copysign sqrt".split()}
PYMATH.update(truncate="trunc", is_finite="isfinite")
NPNAME = dict(acos="arccos", acosh="arccosh", asin="arcsin", asinh="arcsinh", atan="arctan", atanh="arctanh", atan2="arctan2", absolute="abs", truncate="trunc", is_finite="isfinite", lt="less", le="less_equal", gt="greater", ge="greater_equal", eq="equal", ne="not_equal", select="where")
for _k in "cos cosh sin sinh tan tanh exp exp2 expm1 log log1p log2 log10 ceil floor copysign sign hypot square sqrt nextafter logical_and logical_or logical_not".split():
    NPNAME[_k] = _k
CPPNAME = {k: k for k in "acos acosh asin asinh atan atanh atan2 cos cosh sin sinh tan tanh exp expm1 log log1p log2 log10 ceil floor round sqrt".split()}
CPPNAME.update(absolute="abs", maximum="max", minimum="min", is_finite="isfinite")


def canon(node, names):
    """canonical form of a Python expression AST over identifier operands a, b, c"""
    if isinstance(node, ast.Name):
        return ("op", names.index(node.id)) if node.id in names else ("name", node.id)
    if isinstance(node, ast.Constant):
        return ("const", node.value)
    if isinstance(node, ast.BinOp):
        return ("bin", type(node.op).__name__, canon(node.left, names), canon(node.right, names))
    if isinstance(node, ast.UnaryOp):
        return ("un", type(node.op).__name__, canon(node.operand, names))
    if isinstance(node, ast.BoolOp):
        return ("bool", type(node.op).__name__, tuple(canon(v, names) for v in node.values))
    if isinstance(node, ast.Compare) and len(node.ops) == 1:
        return ("cmp", type(node.ops[0]).__name__, canon(node.left, names), canon(node.comparators[0], names))
    if isinstance(node, ast.IfExp):
        return ("if", canon(node.test, names), canon(node.body, names), canon(node.orelse, names))
    if isinstance(node, ast.Attribute):
        base = canon(node.value, names)
        if base[0] == "name":
            return ("name", base[1] + "." + node.attr)
        return ("attr", node.attr, base)
    if isinstance(node, ast.Call):
        f = canon(node.func, names)
        return ("call", f, tuple(canon(a, names) for a in node.args))
    if isinstance(node, ast.Subscript):
        return ("item", canon(node.value, names), canon(node.slice, names))
    return ("other", ast.dump(node)[:60])


def spec(kind, target):
    """expected canonical form of kind on operands 0,1,2 for target in {python, numpy}"""
    o = [("op", i) for i in range(3)]
    lib = "math" if target == "python" else "numpy"
    if kind in BIN:
        return ("bin", BIN[kind], o[0], o[1])
    if kind in UN:
        return ("un", UN[kind], o[0])
    if kind in ("maximum", "minimum"):
        return ("call", ("name", kind[:3]), (o[0], o[1]))
    if kind == "conjugate":
        return ("call", ("attr", "conjugate", o[0]), ())
    if kind in ("real", "imag"):
        return ("attr", kind, o[0])
    if kind == "item":
        return ("item", o[0], o[1])
    if target == "python":
        if kind in CMP:
            return ("cmp", CMP[kind], o[0], o[1])
        if kind == "logical_and":
            return ("bool", "And", (o[0], o[1]))
        if kind == "logical_or":
            return ("bool", "Or", (o[0], o[1]))
        if kind == "logical_not":
            return ("un", "Not", o[0])
        if kind == "select":
            return ("if", o[0], o[1], o[2])
        if kind == "absolute":
            return ("call", ("name", "abs"), (o[0],))
        if kind == "complex":
            return ("call", ("name", "complex"), (o[0], o[1]))
        if kind == "sign":
            return ("if", ("cmp", "Eq", o[0], ("const", 0)), ("const", 0), ("call", ("name", "math.copysign"), (("const", 1), o[0])))
        if kind in PYMATH:
            n = 2 if kind in ("atan2", "copysign") else 1
            return ("call", ("name", "math." + PYMATH[kind]), tuple(o[:n]))
        return None
    if kind == "complex":
        return ("call", ("name", "make_complex"), (o[0], o[1]))
    if kind in NPNAME:
        n = 3 if kind == "select" else (2 if kind in ("atan2", "copysign", "hypot", "nextafter", "logical_and", "logical_or") or kind in CMP else 1)
        return ("call", ("name", "numpy." + NPNAME[kind]), tuple(o[:n]))
    return None


# reference semantics of each kind on Python/NumPy values (independent of the templates)
def ref_sem(kind):
    import operator as op

    d = dict(
        add=op.add, subtract=op.sub, multiply=op.mul, divide=op.truediv, remainder=op.mod, pow=op.pow, negative=op.neg, positive=op.pos,
        lt=op.lt, le=op.le, gt=op.gt, ge=op.ge, eq=op.eq, ne=op.ne,
        logical_and=lambda a, b: bool(a) and bool(b), logical_or=lambda a, b: bool(a) or bool(b), logical_not=lambda a: not bool(a),
        select=lambda c, a, b: a if c else b, maximum=lambda a, b: b if b > a else a, minimum=lambda a, b: b if b < a else a,
        absolute=abs, sqrt=lambda a: numpy.sqrt(a), is_finite=lambda a: bool(numpy.isfinite(a)),
        ceil=lambda a: numpy.ceil(a), floor=lambda a: numpy.floor(a), truncate=lambda a: numpy.trunc(a),
        copysign=lambda a, b: numpy.copysign(a, b), sign=lambda a: numpy.sign(a),
        square=lambda a: a * a, hypot=lambda a, b: numpy.hypot(a, b), atan2=lambda a, b: numpy.arctan2(a, b),
    )
    for k, n in NPNAME.items():
        if k not in d and hasattr(numpy, n) and k not in CMP and k not in ("select", "logical_and", "logical_or", "logical_not", "nextafter"):
            d[k] = getattr(numpy, n)
    return d.get(kind)


GRID1 = [0.5, -0.25, 2.0, 0.0, -0.0, float("inf"), float("-inf"), float("nan"), 1.0, -3.5]
GRID2 = [(0.5, 2.0), (2.0, 0.5), (-1.5, 0.25), (0.0, -0.0), (-0.0, 0.0), (float("inf"), 1.0), (1.0, float("-inf")), (float("nan"), 1.0), (3.0, -2.0), (1.0, 1.0)]


def same_value(u, v):
    try:
        if isinstance(u, (bool, numpy.bool_)) or isinstance(v, (bool, numpy.bool_)):
            return bool(u) == bool(v)
        u, v = numpy.float64(u), numpy.float64(v)
    except Exception:
        try:
            u, v = numpy.complex128(u), numpy.complex128(v)
            return (u.real.tobytes(), u.imag.tobytes()) == (v.real.tobytes(), v.imag.tobytes()) or (u != u and v != v)
        except Exception:
            return False
    if numpy.isnan(u) and numpy.isnan(v):
        return True
    return u.tobytes() == v.tobytes()


# --------------------------------------------------------------------------------------------- O1 python / numpy
def template_obligations_py(rep, tname):
    import functional_algorithms.targets as T
    import functional_algorithms.utils as U

    target = getattr(T, tname)
    fnid = ("targets.%s.kind_to_target" % tname,)
    rep.under_contract(fnid[0], "every template parses, matches the spec's operator/function and operand order, names an existing function, evaluates like the kind")
    names = ["a", "b", "c"]
    env = dict(math=math, numpy=numpy, make_complex=U.make_complex, sys=__import__("sys"))
    for kind, tmpl in sorted(target.kind_to_target.items()):
        if tmpl is NotImplemented or callable(tmpl):
            continue
        base = "C05/O1/%s/%s" % (tname, kind)
        try:
            text = tmpl.format(*names, typeof_0="float")
            tree = ast.parse(text, mode="eval").body
        except Exception as e:
            rep.add(core.decided(base + "/parses", PROP, False, functions=fnid, text="template %r does not instantiate/parse: %r" % (tmpl, e), meta=dict(target=tname, kind=kind, template=tmpl)))
            continue
        rep.add(core.decided(base + "/parses", PROP, True, functions=fnid, text="template %r parses" % tmpl))
        sp = spec(kind, tname)
        got = canon(tree, names)
        if sp is None:
            rep.add(core.decided(base + "/matches-spec", PROP, None, functions=fnid, text="no independent spec entry for %s" % kind, claimed=False))
        else:
            rep.add(core.decided(base + "/matches-spec", PROP, got == sp, functions=fnid, text="operator / function and operand order of %s" % kind, detail=dict(got=repr(got), want=repr(sp), template=tmpl), meta=dict(target=tname, kind=kind, template=tmpl)))
        # every dotted name must exist in its library
        missing = []
        for n in ast.walk(tree):
            if isinstance(n, ast.Attribute) and isinstance(n.value, ast.Name) and n.value.id in ("math", "numpy"):
                if not hasattr(env[n.value.id], n.attr):
                    missing.append("%s.%s" % (n.value.id, n.attr))
        rep.add(core.decided(base + "/function-exists", PROP, not missing, functions=fnid, text="library functions named by the template exist", detail=dict(missing=missing), meta=dict(target=tname, kind=kind, template=tmpl)))
        # semantics on the grid (float64 scalars for numpy, Python floats for python)
        rs = ref_sem(kind)
        nops = len({n.id for n in ast.walk(tree) if isinstance(n, ast.Name) and n.id in names})
        if rs is None or kind in ("real", "imag", "conjugate", "complex", "remainder", "pow", "floor_divide") or kind.startswith("bitwise"):
            continue
        if tname == "python" and kind in PYMATH:
            continue  # a plain call of the target's own primitive: its semantics IS the reference (trusted); name and operand order are checked above
        conv = (lambda v: numpy.float64(v)) if tname == "numpy" else float
        grid = [(v,) for v in GRID1] if nops == 1 else (GRID2 if nops == 2 else [(bool(i % 2), x, y) for i, (x, y) in enumerate(GRID2)])
        if kind == "sign":
            grid = [g for g in grid if g[0] == g[0]]  # sign(NaN) is target-defined (templates built on copysign)
        bad = []
        code = compile(ast.Expression(tree), "<template>", "eval")
        for ops in grid:
            if kind.startswith("logical") or kind == "select":
                vals = [bool(ops[0] > 0) if not isinstance(ops[0], bool) else ops[0]] + [conv(v) if kind == "select" else bool(v > 0) for v in ops[1:]]
            else:
                vals = [conv(v) for v in ops]
            with numpy.errstate(all="ignore"):
                try:
                    want = rs(*vals)
                except Exception as e:
                    want = ("raises", type(e).__name__)
                try:
                    import warnings

                    with warnings.catch_warnings():
                        warnings.simplefilter("ignore")
                        gotv = eval(code, dict(env), dict(zip(names, vals)))
                except Exception as e:
                    gotv = ("raises", type(e).__name__)
            if isinstance(want, tuple) or isinstance(gotv, tuple):
                # Python's math raises where NumPy returns nan/inf: only a template that raises where the reference
                # evaluates to a finite value is a disagreement
                if isinstance(gotv, tuple) and not isinstance(want, tuple) and numpy.all(numpy.isfinite(numpy.float64(want))) and tname == "numpy":
                    bad.append((ops, repr(gotv), repr(want)))
                continue
            if kind in ("sign",) and tname == "python":
                ok = float(gotv) == float(want) or (gotv != gotv and want != want)
            else:
                ok = same_value(gotv, want)
            if not ok:
                bad.append((ops, repr(gotv), repr(want)))
        rep.add(core.decided(base + "/semantics-on-grid", PROP, not bad, functions=fnid, text="template evaluates like the reference semantics of %s on %d special/asymmetric operand tuples (bit patterns)" % (kind, len(grid)), detail=dict(bad=[str(b) for b in bad[:4]]), meta=dict(target=tname, kind=kind, template=tmpl, bad=[str(b) for b in bad[:2]])))


# --------------------------------------------------------------------------------------------- O1 cpp
CPP_GRID1 = ["0.5", "-0.25", "2.0", "0.0", "-0.0", "INFINITY", "-INFINITY", "NAN", "1.0", "-3.5"]
CPP_GRID2 = [("0.5", "2.0"), ("2.0", "0.5"), ("-1.5", "0.25"), ("0.0", "-0.0"), ("-0.0", "0.0"), ("INFINITY", "1.0"), ("1.0", "-INFINITY"), ("NAN", "1.0"), ("3.0", "-2.0"), ("1.0", "1.0")]


def pyval(s):
    return dict(INFINITY=float("inf"), NAN=float("nan")).get(s.lstrip("-"), None) if s.lstrip("-") in ("INFINITY", "NAN") else float(s)


def pv(s):
    v = dict(INFINITY=float("inf"), NAN=float("nan")).get(s.lstrip("-"))
    if v is None:
        return float(s)
    return -v if s.startswith("-") else v


def template_obligations_cpp(rep):
    import functional_algorithms.targets as T

    target = T.cpp
    fnid = ("targets.cpp.kind_to_target",)
    rep.under_contract(fnid[0], "every template compiles for float and double and evaluates like the kind (g++ as decision procedure)")
    kinds = [(k, t) for k, t in sorted(target.kind_to_target.items()) if t is not NotImplemented and not callable(t)]
    work = tempfile.mkdtemp(prefix="vf_c05_")
    try:
        progs = {}
        for kind, tmpl in kinds:
            if kind.startswith("bitwise") or kind in ("remainder",):
                ctypes = ["int64_t"]
            elif kind in ("real", "imag"):
                ctypes = ["std::complex<double>"]
            elif kind in ("logical_and", "logical_or", "logical_not"):
                ctypes = ["bool"]
            else:
                ctypes = ["float", "double"]
            for ct in ctypes:
                src = "#include <algorithm>\n#include <cmath>\n#include <complex>\n#include <cstdint>\n#include <limits>\n#include <cstdio>\n#include <cstring>\n"
                text = tmpl.format("a", "b", "c", typeof_0=ct)
                nops = 3 if "c" in [n for n in ("c",) if "(c)" in text or " c" in text or "c)" in text] and kind == "select" else (2 if ("b" in text.replace("std::", "").replace("abs", "").replace("bool", "")) and kind not in ("absolute",) else 1)
                if kind == "select":
                    sig = "bool a, %s b, %s c" % (ct, ct)
                    nops = 3
                elif kind in ("complex",):
                    sig, nops = "%s a, %s b" % (ct, ct), 2
                else:
                    nops = 2 if kind in ("add", "subtract", "multiply", "divide", "remainder", "maximum", "minimum", "atan2", "lt", "le", "gt", "ge", "eq", "ne", "logical_and", "logical_or", "bitwise_and", "bitwise_or", "bitwise_xor", "bitwise_left_shift", "bitwise_right_shift") else 1
                    sig = ", ".join("%s %s" % (ct, n) for n in "ab"[:nops])
                src += "auto f(%s) { return %s; }\n" % (sig, text)
                # driver printing bit patterns on the grid
                if ct in ("float", "double") and kind not in ("complex",):
                    it = "uint32_t" if ct == "float" else "uint64_t"
                    grid = [(v,) for v in CPP_GRID1 if not (kind == "sign" and v == "NAN")] if nops == 1 else (CPP_GRID2 if nops == 2 else [("true" if i % 2 else "false", x, y) for i, (x, y) in enumerate(CPP_GRID2)])
                    src += "int main() {\n"
                    for ops in grid:
                        args = ", ".join((o if (kind == "select" and j == 0) else "(%s)(%s)" % (ct, o)) for j, o in enumerate(ops))
                        src += "  { auto r = f(%s); double d = (double)r; uint64_t u; std::memcpy(&u, &d, 8); std::printf(\"%%llx\\n\", (unsigned long long)u); }\n" % args
                    src += "  return 0;\n}\n"
                else:
                    grid = None
                    src += "int main() { return 0; }\n"
                progs[(kind, ct)] = (tmpl, src, grid, nops)
        # compile + run in parallel
        procs = {}
        for (kind, ct), (tmpl, src, grid, nops) in progs.items():
            fn = os.path.join(work, "%s_%s.cpp" % (kind, ct.replace("<", "_").replace(">", "_").replace(":", "_")))
            open(fn, "w").write(src)
            procs[(kind, ct)] = (fn, subprocess.Popen(["g++", "-std=c++17", "-O0", "-w", fn, "-o", fn[:-4]], stdout=subprocess.PIPE, stderr=subprocess.PIPE, text=True))
        for (kind, ct), (fn, p) in procs.items():
            tmpl, src, grid, nops = progs[(kind, ct)]
            out, err = p.communicate()
            base = "C05/O1/cpp/%s/%s" % (kind, ct)
            meta = dict(target="cpp", kind=kind, template=tmpl, ctype=ct)
            rep.add(core.decided(base + "/compiles", PROP, p.returncode == 0, functions=fnid, text="template %r compiles for %s" % (tmpl, ct), detail=dict(stderr=err[-400:]), meta=dict(meta, stderr=err[-300:])))
            if p.returncode != 0 or grid is None:
                continue
            rs = ref_sem(kind)
            if rs is None:
                continue
            r = subprocess.run([fn[:-4]], capture_output=True, text=True, timeout=60)
            lines = r.stdout.split()
            bad = []
            npt = numpy.float32 if ct == "float" else numpy.float64
            for ops, ln in zip(grid, lines):
                got = numpy.uint64(int(ln, 16)).view(numpy.float64)
                if kind == "select":
                    vals = [ops[0] == "true"] + [npt(pv(o)) for o in ops[1:]]
                else:
                    vals = [npt(pv(o)) for o in ops]
                with numpy.errstate(all="ignore"):
                    if kind == "sign":
                        want = vals[0] if vals[0] == 0 or vals[0] != vals[0] else numpy.copysign(npt(1), vals[0])
                    elif kind == "round":
                        want = numpy.copysign(numpy.floor(abs(vals[0]) + npt(0.5)), vals[0]) if numpy.isfinite(vals[0]) else vals[0]
                    elif kind in ("maximum", "minimum"):
                        # std::max(a, b) = (a < b) ? b : a ; std::min(a, b) = (b < a) ? b : a
                        want = (vals[1] if vals[0] < vals[1] else vals[0]) if kind == "maximum" else (vals[1] if vals[1] < vals[0] else vals[0])
                    else:
                        want = rs(*vals)
                ok = same_value(got, numpy.float64(want)) if not isinstance(want, (bool, numpy.bool_)) else bool(got) == bool(want)
                if not ok and kind in CPPNAME and kind not in ("absolute", "maximum", "minimum", "is_finite", "ceil", "floor", "round", "sqrt"):
                    # libm vs NumPy may differ in the last place for transcendental functions: allow 1 ulp
                    w = npt(want)
                    ok = bool(abs(npt(got) - w) <= abs(numpy.spacing(w)))
                if not ok:
                    bad.append((ops, repr(got), repr(want)))
            rep.add(core.decided(base + "/semantics-on-grid", PROP, not bad and len(lines) == len(grid), functions=fnid, text="compiled template evaluates like %s on %d special/asymmetric operand tuples" % (kind, len(grid)), detail=dict(bad=[str(b) for b in bad[:4]]), meta=dict(meta, bad=[str(b) for b in bad[:2]])))
    finally:
        subprocess.run(["rm", "-rf", work])


# --------------------------------------------------------------------------------------------- O6 composition
def py_like(text):
    """C++ operator subset -> Python syntax with the same precedence/associativity (for parsing only)"""
    import re

    t = text.replace("std::", "std.").replace("&&", " and ").replace("||", " or ")
    t = re.sub(r"!(?!=)", " not ", t)
    t = re.sub(r"std\.numeric_limits<[^>]*>\.", "std.numeric_limits.", t)
    t = re.sub(r"std\.complex<[^>]*>", "std.complex", t)
    return t


def composition_obligations(rep, targets=("python", "numpy", "cpp", "xla_client")):
    """substituting a child's text for a placeholder keeps the child's tree intact: for every (parent template, placeholder,
    child template) the instantiated text parses to the same tree as with the child explicitly parenthesised"""
    import functional_algorithms.targets as T

    for tname in targets:
        target = getattr(T, tname)
        conv = py_like if tname in ("cpp", "xla_client") else (lambda t: t)
        fnid = ("targets.%s.kind_to_target" % tname,)
        tm = {k: v for k, v in target.kind_to_target.items() if isinstance(v, str)}
        children = {}
        for k, v in tm.items():
            try:
                txt = v.format("p", "q", "r", typeof_0="float")
                ast.parse(conv(txt), mode="eval")
                children[k] = txt
            except Exception:
                continue  # unparsable templates are O1's finding; ternaries are handled below
        from vf.symexpr import SIG

        def optypes(kind):
            if kind == "select":
                return ("B", "F", "F")
            sg = SIG.get(kind)
            return sg[0] if sg else None

        def restype(kind):
            if kind == "select":
                return "F"
            sg = SIG.get(kind)
            return sg[1] if sg else None

        bad = []
        n = 0
        skipped = []
        for pk, pv in sorted(tm.items()):
            nholes = 3 if "{2}" in pv else (2 if "{1}" in pv else 1)
            pt = optypes(pk)
            if pt is None:
                continue  # only well-typed compositions of the float/boolean kinds
            for j in range(min(nholes, len(pt))):
                for ck, ctxt in children.items():
                    if restype(ck) != pt[j]:
                        continue
                    args = ["a", "b", "c"]
                    a1 = list(args)
                    a1[j] = ctxt
                    a2 = list(args)
                    a2[j] = "(" + ctxt + ")"
                    try:
                        e2 = ast.dump(ast.parse(conv(pv.format(*a2, typeof_0="float")), mode="eval"))
                    except SyntaxError:
                        skipped.append(pk)  # the parent template itself is not readable as a Python expression
                        break
                    n += 1
                    try:
                        e1 = ast.dump(ast.parse(conv(pv.format(*a1, typeof_0="float")), mode="eval"))
                    except SyntaxError:
                        e1 = None  # parses with explicit parentheses, not without: the substitution breaks the text
                    if e1 != e2:
                        bad.append((pk, j, ck, pv.format(*a1, typeof_0="float")))
        rep.add(core.decided("C05/O6/composition/%s" % tname, PROP, not bad, functions=fnid, text="%d (parent template, placeholder, child template) combinations: the child's tree is intact inside the parent (same parse as with explicit parentheses)" % n, detail=dict(bad=[str(b) for b in bad[:5]], not_parsable_as_python=sorted(set(skipped))), meta=dict(target=tname, kind="composition", bad=[str(b) for b in bad[:3]])))


# --------------------------------------------------------------------------------------------- O2 printer step
def printer_step_obligations(rep):
    import warnings

    import functional_algorithms as fa
    import functional_algorithms.targets as T
    from functional_algorithms.expr import Expr

    for tname in ("python", "numpy", "cpp"):
        target = getattr(T, tname)
        RealPrinter = target.Printer
        fnid = ("targets.base.PrinterBase.tostring",)
        rep.under_contract(fnid[0], "one assignment per needed reference, after the operands, never twice; returns the reference name iff need_ref")
        tname_float = "float64" if tname != "python" else "float"
        bad = []
        n = 0
        for kind, tmpl in sorted(target.kind_to_target.items()):
            if tmpl is NotImplemented or callable(tmpl) or kind in ("item", "list") or kind.startswith("bitwise") or kind in ("floor_divide",):
                continue  # integer-only kinds are outside the covered type classes
            arity = 3 if kind == "select" else (2 if "{1}" in tmpl else 1)
            for top_need, debug in itertools.product((True, False), (0, 1)):
                for opstate in itertools.product(("defined", "needs", "inline"), repeat=arity):
                    n += 1
                    ctx = fa.Context(paths=[])
                    with warnings.catch_warnings():
                        warnings.simplefilter("ignore")
                        if kind == "select":
                            ops = [ctx.symbol("c", "boolean")] + [ctx.symbol("x%d" % i, tname_float) for i in (1, 2)]
                        elif kind in ("logical_and", "logical_or", "logical_not"):
                            ops = [ctx.symbol("x%d" % i, "boolean") for i in range(arity)]
                        elif kind in ("real", "imag", "conjugate"):
                            ops = [ctx.symbol("x0", "complex128" if tname != "python" else "complex")]
                        else:
                            ops = [ctx.symbol("x%d" % i, tname_float) for i in range(arity)]
                        ops = [ctx.negative(o) if o.get_type().kind != "boolean" else ctx.logical_not(o) for o in ops]  # non-leaf operands
                        top = Expr(ctx, kind, tuple(ops))
                        need = {top.ref: top_need}
                        for o, stt in zip(ops, opstate):
                            need[o.ref] = stt in ("defined", "needs")
                            for oo in o.operands:
                                need[oo.ref] = False
                        events = []

                        class P(RealPrinter):
                            def tostring(self, expr, tab=""):
                                if expr is top:
                                    return RealPrinter.tostring(self, expr, tab)
                                # contract of the recursive call
                                if expr.ref in self.defined_refs:
                                    return expr.ref
                                if self.need_ref.get(expr.ref):
                                    self.assignments.append("ASSIGN %s" % expr.ref)
                                    self.defined_refs.add(expr.ref)
                                    return expr.ref
                                return "<%s>" % expr.ref

                        try:
                            pr = P(need, debug=debug)
                        except TypeError:
                            pr = P(need)
                            pr.debug = debug
                        for o, stt in zip(ops, opstate):
                            if stt == "defined":
                                pr.defined_refs.add(o.ref)
                        before = list(pr.assignments)
                        try:
                            text = pr.tostring(top)
                        except Exception as e:
                            bad.append((kind, top_need, debug, opstate, "raised %r" % (e,)))
                            continue
                        added = pr.assignments[len(before):]
                        own = [a for a in added if not a.startswith("ASSIGN ")]
                        opnames = [o.ref for o in ops]
                        problem = None
                        if top_need:
                            import re as _re

                            pat = _re.compile(r"^(?:[\w:<>, ]+ )?%s(?::[^=]*)? = " % _re.escape(top.ref))
                            assigns = [a for a in own if pat.match(a) and not a.startswith("assert")]
                            if text != top.ref:
                                problem = "did not return the reference name"
                            elif len(assigns) != 1:
                                problem = "%d assignments of the reference" % len(assigns)
                            elif top.ref not in pr.defined_refs:
                                problem = "reference not recorded as defined"
                            else:
                                # after all operand assignments
                                idx = added.index(assigns[0])
                                if any(a.startswith("ASSIGN ") for a in added[idx + 1 :]):
                                    problem = "operand assigned after its use"
                                extra = [a for a in own if a is not assigns[0]]
                                if debug == 0 and extra:
                                    problem = "unexpected statements %r" % extra[:1]
                                if debug >= 1 and any(top.ref not in a for a in extra):
                                    problem = "debug statement about another name"
                        else:
                            if own:
                                problem = "assignment although the reference is not needed"
                            elif top.ref in pr.defined_refs:
                                problem = "recorded as defined without an assignment"
                        # operands in order inside the text / assignment value
                        value = (own[0] if (top_need and own) else text)
                        pos = []
                        for o, stt in zip(ops, opstate):
                            tok = o.ref if stt in ("defined", "needs") else "<%s>" % o.ref
                            pos.append(value.find(tok))
                        if problem is None and (any(p < 0 for p in pos)):
                            problem = "an operand is missing from the printed expression"
                        if problem:
                            bad.append((kind, top_need, debug, opstate, problem))
        rep.add(core.decided("C05/O2/printer-step/%s" % tname, PROP, not bad, functions=fnid, text="%d (kind, need_ref, debug, operand states) cases of the real PrinterBase.tostring step with recursive calls replaced by their contract" % n, detail=dict(bad=[str(b) for b in bad[:5]], cases=n), meta=dict(target=tname, bad=[str(b) for b in bad[:3]])))


# --------------------------------------------------------------------------------------------- O3 need_ref
def need_ref_obligations(rep):
    import functional_algorithms as fa
    import functional_algorithms.targets as T

    fnid = ("expr.Expr.tostring.compute_need_ref",)
    rep.under_contract(fnid[0], "shared sub-expressions get need_ref = True")
    seen = {}

    class Spy(T.python.Printer):
        def __init__(self, need_ref, **kw):
            seen["need"] = dict(need_ref)
            super().__init__(need_ref, **kw)

        def tostring(self, expr, tab=""):
            return "spy"

    class SpyTarget:
        Printer = Spy

    bad = []
    n = 0
    for shape in range(6):
        ctx = fa.Context(paths=[])
        x, y = ctx.symbol("x", "float"), ctx.symbol("y", "float")
        s = x + y
        exprs = [s * s, (s * x) + s, ctx.select(x < y, s, s * y), (s + 1) * (s + 1), s - (x + y), ctx.sqrt(s) / s][shape]
        exprs.tostring(SpyTarget)
        n += 1
        shared = (s + 1) if shape == 3 else s  # in shape 3 the shared node is s + 1 (s hangs below it once)
        if not seen["need"].get(shared.ref):
            bad.append((shape, "shared sub-expression not marked"))
        # an expression used once is not forced
        once = [o for o in exprs.operands if o is not s and o.kind not in ("symbol", "constant")]
        for o in once:
            cnt = str(exprs).count(str(o))
    rep.add(core.decided("C05/O3/need-ref-on-sharing", PROP, not bad, functions=fnid, text="%d DAG shapes: a sub-expression reachable along two paths is bound to a name (need_ref True)" % n, detail=dict(bad=bad), meta=dict(bad=[str(b) for b in bad])))


# --------------------------------------------------------------------------------------------- O4 references
def reference_obligations(rep):
    from functional_algorithms.context import Context

    fnid = ("context.Context._register_reference",)
    rep.under_contract(fnid[0], "returns a name registered to this expression and to no other; frame")
    f = vars(Context)["_register_reference"]

    class E:
        def __init__(self, tag, origin="_f_1_"):
            self.tag = tag
            self.props = {"origin": origin}

    bad = []
    n = 0
    name, origin = "r", "_f_1_"
    cand = [name, origin + name] + ["_%s_%d_" % (origin + name, k) for k in range(3)]
    # ghost states: every subset of the candidate names registered, each to `self` or to another expression
    for mask in itertools.product((None, "self", "other"), repeat=len(cand)):
        n += 1
        expr = E("self", origin)
        others = {}
        reg = {}
        for nm, st in zip(cand, mask):
            if st == "self":
                reg[nm] = expr
            elif st == "other":
                reg[nm] = others.setdefault(nm, E("other:" + nm))
        selfnames = [nm for nm, st in zip(cand, mask) if st == "self"]
        if len(selfnames) > 1:
            continue  # WF: an expression has one reference name
        if selfnames:
            expr.props["ref"] = selfnames[0]
        ctx = type("C", (), {})()
        ctx._ref_values = dict(reg)
        try:
            r = f(ctx, expr, name)
        except AssertionError:
            continue  # the code's own sanity checks reject the state
        except Exception as e:
            bad.append((mask, "raised %r" % (e,)))
            continue
        after = ctx._ref_values
        prob = None
        if not isinstance(r, str):
            prob = "returned %s instead of a name" % type(r).__name__
        elif after.get(r) is not expr:
            prob = "returned name is not registered to the expression"
        else:
            for nm, v in reg.items():
                if after.get(nm) is not v and not (nm == r and v is expr):
                    prob = "entry %r of another expression was overwritten" % nm
            if expr.props.get("ref") != r:
                prob = prob or "props['ref'] differs from the returned name"
        if prob:
            bad.append(("".join({None: "-", "self": "s", "other": "o"}[m] for m in mask), prob))
    rep.add(core.decided("C05/O4/register-reference", PROP, not bad, functions=fnid, text="%d ghost states of _ref_values over the candidate names (name, origin+name, _origin+name_k_): the returned name maps to this expression only and nothing else changes" % n, detail=dict(bad=[str(b) for b in bad[:6]], candidates=cand), meta=dict(bad=[str(b) for b in bad[:3]])))
    # (Context.call's origin prefixes only make names readable; uniqueness rests on _register_reference alone, so no
    #  obligation is placed on them: a change that repeats an origin does not break the property)



# --------------------------------------------------------------------------------------------- O5 constants
def constant_obligations(rep):
    """numeric constants: the text the real printer emits for a constant evaluates, inside the emitted function, to that
    value bit for bit (sign of zero, infinities, NaN), for the Python and the NumPy target"""
    import warnings

    import functional_algorithms as fa
    import functional_algorithms.targets as T

    values = [0.0, -0.0, 1.0, -1.5, 2, -3, 1e-320, 1e300, 0.1, float("inf"), float("-inf"), float("nan"), numpy.float64(-0.0), numpy.float64("inf"), numpy.float32(0.1), True]
    for tname in ("python", "numpy"):
        target = getattr(T, tname)
        fnid = ("targets.%s.Printer.make_constant" % tname,)
        bad, n = [], 0
        for v in values:
            for shape in ("returned", "operand"):
                if isinstance(v, bool) and shape == "operand":
                    continue
                n += 1

                def f(ctx, x: float):
                    c = ctx.constant(v, x) if not isinstance(v, bool) else ctx.constant(v)
                    return c if shape == "returned" else ctx.copysign(ctx.constant(1.0, x), c) * (c + x)

                try:
                    with warnings.catch_warnings(), numpy.errstate(all="ignore"):
                        warnings.simplefilter("ignore")
                        ctx = fa.Context(paths=[fa.algorithms])
                        g = ctx.trace(f, float if tname == "python" else numpy.float64)
                        fn = target.as_function(g)
                        got = fn(0.0)
                        if shape == "returned":
                            want = v
                        else:
                            cv = numpy.float64(v)
                            want = numpy.copysign(numpy.float64(1.0), cv) * (cv + numpy.float64(0.0))
                    if not same_value(got, want):
                        bad.append((repr(v), shape, "evaluates to %r instead of %r" % (got, want)))
                except Exception as e:
                    bad.append((repr(v), shape, "raised %r" % (e,)))
        # complex constants: both components bit for bit (signed zeros)
        cbad = []
        for v in (complex(-1, 0.0), complex(-1, -0.0), complex(-0.0, 2.0), complex(0.0, -3.0), complex(1.5, float("inf")), complex(-0.0, -0.0), numpy.complex64(complex(1, -0.0)), numpy.complex64(complex(float("inf"), 1)), numpy.complex128(complex(-0.0, 1)), numpy.complex64(complex(-2.5, 0.0))):
            def fz(ctx, z: complex):
                return ctx.constant(v, z)

            try:
                with warnings.catch_warnings(), numpy.errstate(all="ignore"):
                    warnings.simplefilter("ignore")
                    ctx = fa.Context(paths=[fa.algorithms])
                    g = ctx.trace(fz, complex if tname == "python" else numpy.complex128)
                    got = numpy.complex128(target.as_function(g)(0j))
                want = numpy.complex128(v)
                if (got.real.tobytes(), got.imag.tobytes()) != (want.real.tobytes(), want.imag.tobytes()):
                    cbad.append((repr(v), "evaluates to %r" % (got,)))
            except Exception as e:
                cbad.append((repr(v), "raised %r" % (e,)))
        rep.add(core.decided("C05/O5/constants/%s/complex-signed-zeros" % tname, PROP, not cbad, functions=fnid, text="complex constants evaluate to their value, both components bit for bit", detail=dict(bad=[str(b) for b in cbad]), meta=dict(target=tname, kind="constants-complex", bad=[str(b) for b in cbad[:4]])))
        # a payload narrower than the reference operand (numpy.float32(0.1) like a double) is its own obligation
        narrow = [b for b in bad if "float32" in b[0]]
        bad = [b for b in bad if "float32" not in b[0]]
        rep.add(core.decided("C05/O5/constants/%s" % tname, PROP, not bad, functions=fnid, text="%d (value, position) cases: the printed constant evaluates to the value bit for bit inside the emitted function" % n, detail=dict(bad=[str(b) for b in bad[:8]]), meta=dict(target=tname, kind="constants", bad=[str(b) for b in bad[:4]])))
        rep.add(core.decided("C05/O5/constants/%s/payload-narrower-than-reference" % tname, PROP, not narrow, functions=fnid, text="numpy.float32(0.1) as the value of a constant like a double: the printed constant evaluates to float32(0.1) widened", detail=dict(bad=[str(b) for b in narrow]), meta=dict(target=tname, kind="constants-narrow-payload", bad=[str(b) for b in narrow[:4]])))


# --------------------------------------------------------------------------------------------- O7 list arguments
def list_argument_obligations(rep):
    """PrinterBase.init_arguments for list-typed arguments: every item the body uses is bound exactly once, before its first
    use, from `<list>[<its own index>]` (possibly through a cast), for every length <= 3, every non-empty set of used items
    and both cast settings; the emitted NumPy function is also executed on distinct item values."""
    import warnings

    import functional_algorithms as fa
    import functional_algorithms.targets as T

    fnid = ("targets.base.PrinterBase.init_arguments",)
    for tname in ("numpy",):  # the lax printer shares the code but is outside the statement (and jax is not installed)
        target = getattr(T, tname, None)
        if target is None:
            continue
        bad, n = [], 0
        for length in (1, 2, 3):
            for used in itertools.product((False, True), repeat=length):
                if not any(used):
                    continue
                for fc in (False, True):
                    n += 1
                    weights = [3.0, 5.0, 7.0][:length]

                    def f(ctx, x: list):
                        r = None
                        for k in range(length):
                            if used[k]:
                                term = x[k] * ctx.constant(weights[k], x[k])
                                r = term if r is None else r + term
                        return r

                    tag = "len=%d used=%s force_cast_arguments=%s" % (length, "".join("1" if u else "0" for u in used), fc)
                    try:
                        with warnings.catch_warnings():
                            warnings.simplefilter("ignore")
                            ctx = fa.Context(paths=[fa.algorithms])
                            g = ctx.trace(f, list[tuple([numpy.float64] * length)] if False else eval("list[%s]" % ", ".join(["numpy.float64"] * length), {"numpy": numpy, "list": list}))
                            g = g.rewrite(target, fa.rewrite)
                            src = g.tostring(target, debug=0, force_cast_arguments=fc)
                    except Exception as e:
                        bad.append((tag, "printing raised %r" % (e,)))
                        continue
                    try:
                        tree = ast.parse(src)
                    except SyntaxError as e:
                        bad.append((tag, "emitted text does not parse: %s" % e))
                        continue
                    fdef = next(nd for nd in ast.walk(tree) if isinstance(nd, ast.FunctionDef))
                    lname = fdef.args.args[0].arg
                    # statements in order; record for each subscript read `<list>[k]` the name it is bound to
                    bound = {}
                    prob = None
                    stmts = []
                    for nd in ast.walk(fdef):
                        if isinstance(nd, (ast.Assign, ast.AnnAssign)):
                            stmts.append(nd)
                    stmts.sort(key=lambda nd: (nd.lineno, nd.col_offset))
                    assigned = set()
                    for st in stmts:
                        tgt = st.targets[0] if isinstance(st, ast.Assign) else st.target
                        val = st.value
                        if not isinstance(tgt, ast.Name) or val is None:
                            continue
                        reads = {nd.id for nd in ast.walk(val) if isinstance(nd, ast.Name)}
                        for r_ in reads:
                            if r_ not in assigned and r_ != lname and r_ not in ("numpy", "jnp", "jax", "warnings", "math", "lax"):
                                prob = prob or "`%s` is read before it is bound (statement `%s`)" % (r_, ast.unparse(st))
                        for nd in ast.walk(val):
                            if isinstance(nd, ast.Subscript) and isinstance(nd.value, ast.Name) and nd.value.id == lname and isinstance(nd.slice, ast.Constant):
                                bound.setdefault(nd.slice.value, tgt.id)
                        assigned.add(tgt.id)
                    for k in range(length):
                        if used[k] and k not in bound:
                            prob = prob or "item %d is used but `%s[%d]` is never read" % (k, lname, k)
                    if prob is None and tname == "numpy":
                        try:
                            ns = {}
                            exec(compile(tree, "<emitted>", "exec"), dict(numpy=numpy, warnings=warnings), ns)
                            fun = next(v for v in ns.values() if callable(v))
                            items = [numpy.float64(v) for v in (11.0, 13.0, 17.0)[:length]]
                            got = fun(list(items))
                            want = sum(float(items[k]) * weights[k] for k in range(length) if used[k])
                            if float(got) != want:
                                prob = "emitted function returns %r, the graph evaluates to %r on %s" % (got, want, [float(v) for v in items])
                        except Exception as e:
                            prob = "emitted function raised %r" % (e,)
                    if prob:
                        bad.append((tag, prob))
        rep.add(core.decided("C05/O7/list-arguments/%s" % tname, PROP, not bad, functions=fnid, text="%d (length, used items, force_cast_arguments) cases: each used item is bound once, before use, from its own index; the NumPy function evaluates the graph" % n, detail=dict(bad=[str(b) for b in bad[:6]]), meta=dict(target=tname, kind="list-arguments", bad=[str(b) for b in bad[:3]])))


# --------------------------------------------------------------------------------------------- O8 auto-generated names
def auto_reference_obligations(rep):
    """make_ref / toidentifier: two DIFFERENT expressions of one graph never get the same auto-generated reference name
    (the printers key need_ref and defined_refs by that name).  Finite universe: a unary/binary node over one symbol and
    constants that differ in value, sign of zero, Python/NumPy type or reference operand."""
    import warnings

    import functional_algorithms as fa
    import functional_algorithms.targets as T

    fnid = ("expr.make_ref", "expr.toidentifier")
    values = [0.0, -0.0, 1.0, -1.0, 1, -1, 0, 2.0, 0.5, 1.5, -1.5, float("inf"), float("-inf"), float("nan"), numpy.float32("nan"), 1e-3, 1e300, 3, numpy.float32(0.0), numpy.float32(-0.0), numpy.float32(1.5), numpy.float64(-0.0), numpy.float64(0.1), numpy.float32(0.1), True, False]
    bad, n = [], 0
    with warnings.catch_warnings():
        warnings.simplefilter("ignore")
        for tname in ("numpy", "python"):
            target = getattr(T, tname)
            for kind in ("copysign", "atan2", "maximum"):
                for i, v1 in enumerate(values):
                    for v2 in values[i + 1 :]:
                        if isinstance(v1, bool) or isinstance(v2, bool):
                            continue
                        n += 1

                        def f(ctx, x: float):
                            a = getattr(ctx, kind)(x, ctx.constant(v1, x))
                            b = getattr(ctx, kind)(x, ctx.constant(v2, x))
                            return ctx.hypot(a, b) if False else a * ctx.constant(3.0, x) + b

                        try:
                            ctx = fa.Context(paths=[fa.algorithms])
                            g = ctx.trace(f, numpy.float64 if tname == "numpy" else float)
                            body = g.operands[-1]
                        except Exception as e:
                            bad.append((tname, kind, repr(v1), repr(v2), "tracing raised %r" % (e,)))
                            continue
                        # the two nodes
                        nodes = []

                        def walk(e, nodes=nodes):
                            if getattr(e, "kind", None) == kind and not any(e is m for m in nodes):
                                nodes.append(e)
                            for o in getattr(e, "operands", ()):
                                if hasattr(o, "kind"):
                                    walk(o)

                        walk(body)
                        if len(nodes) < 2:
                            continue  # the two constants denote the same expression (same key): nothing to distinguish
                        # constants of different Python/NumPy type but the same value (0.0 and numpy.float32(0.0)) may share a name:
                        # the nodes then compute the same thing; a shared name is a violation only when the values differ
                        same_value = numpy.float64(v1).tobytes() == numpy.float64(v2).tobytes() or (v1 != v1 and v2 != v2)
                        try:
                            r0, r1 = nodes[0].ref, nodes[1].ref
                        except Exception as e:
                            bad.append((tname, kind, repr(v1), repr(v2), "naming a node raised %r" % (e,)))
                            continue
                        if r0 == r1 and nodes[0].key != nodes[1].key and not same_value:
                            bad.append((tname, kind, repr(v1), repr(v2), "both nodes are named %s" % r0))
    # names are joined with "_": symbols whose own names contain "_" must not make two different nodes read alike
    with warnings.catch_warnings():
        warnings.simplefilter("ignore")
        for kind in ("hypot", "atan2", "maximum", "add"):
            for names in ((("a_b", "c"), ("a", "b_c")), (("x_1", "y"), ("x", "1_y" if False else "y_1")), (("p_q_r", "s"), ("p", "q_r_s"))):
                n += 1

                def f(ctx, *args):
                    d = dict(zip(allnames, args))
                    u = getattr(ctx, kind)(d[names[0][0]], d[names[0][1]]) if kind != "add" else d[names[0][0]] + d[names[0][1]]
                    v = getattr(ctx, kind)(d[names[1][0]], d[names[1][1]]) if kind != "add" else d[names[1][0]] + d[names[1][1]]
                    return u * u + v * v * ctx.constant(3.0, args[0])

                allnames = list(names[0]) + list(names[1])
                try:
                    import inspect

                    f.__signature__ = inspect.Signature([inspect.Parameter("ctx", inspect.Parameter.POSITIONAL_OR_KEYWORD)] + [inspect.Parameter(nm, inspect.Parameter.POSITIONAL_OR_KEYWORD, annotation=float) for nm in allnames])
                    ctx = fa.Context(paths=[fa.algorithms])
                    g = ctx.trace(f, *([numpy.float64] * 4))
                    fn = T.numpy.as_function(g, debug=0)
                    vals = [3.0, 4.0, 6.0, 8.0]
                    got = float(fn(*vals))
                    d = dict(zip(allnames, vals))
                    ev = {"hypot": math.hypot, "atan2": math.atan2, "maximum": max, "add": lambda p, q: p + q}[kind]
                    u, v = ev(d[names[0][0]], d[names[0][1]]), ev(d[names[1][0]], d[names[1][1]])
                    want = u * u + v * v * 3.0
                    if got != want:
                        bad.append(("numpy", kind, names, "the emitted function returns %r, the graph evaluates to %r (two nodes printed under one name)" % (got, want)))
                except Exception as e:
                    bad.append(("numpy", kind, names, "raised %r" % (e,)))
    rep.add(core.decided("C05/O8/auto-reference-names-distinct", PROP, not bad, functions=fnid, text="%d pairs of nodes that differ only in a constant operand: different expressions get different reference names" % n, detail=dict(bad=[str(b) for b in bad[:8]]), meta=dict(kind="auto-reference-names", bad=[str(b) for b in bad[:4]])))


# --------------------------------------------------------------------------------------------- O9 C++ whole functions
def cpp_function_obligations(rep):
    """the real C++ printer on small whole functions (constants of every value class, kinds with a literal operand): the
    emitted source compiles with g++ and returns, bit for bit, what the graph evaluates to in the declared type"""
    import contextlib
    import io
    import warnings

    import functional_algorithms as fa
    import functional_algorithms.targets as T

    fnid = ("targets.cpp.Printer",)
    work = tempfile.mkdtemp(prefix="vf_c05cpp_")
    cases = []

    def case(name, fn, dtype, xval, want):
        cases.append((name, fn, dtype, xval, want))

    f32, f64 = numpy.float32, numpy.float64
    for t, tn in ((f32, "float32"), (f64, "float64")):
        x0 = t(1.1)
        case("inline-float-constant/%s" % tn, lambda ctx, x: x * ctx.constant(0.1, x), t, x0, x0 * t(0.1))
        case("integer-valued-constants-divided/%s" % tn, lambda ctx, x: x * (ctx.constant(1, x) / ctx.constant(3, x)), t, x0, x0 * (t(1) / t(3)))
        case("maximum-with-literal/%s" % tn, lambda ctx, x: ctx.maximum(x, ctx.constant(1, x)), t, t(0.5), t(1))
        case("minimum-with-literal/%s" % tn, lambda ctx, x: ctx.minimum(x, ctx.constant(0.5, x)), t, t(2), t(0.5))
        case("nan-constant/%s" % tn, lambda ctx, x: x + ctx.constant(float("nan"), x), t, x0, t(numpy.nan))
        case("negative-infinity-constant/%s" % tn, lambda ctx, x: x + ctx.constant(float("-inf"), x), t, x0, t(-numpy.inf))
        case("negative-zero-constant/%s" % tn, lambda ctx, x: ctx.copysign(x, ctx.constant(-0.0, x)), t, x0, -x0)
        case("named-pi/%s" % tn, lambda ctx, x: x * ctx.constant("pi", x), t, x0, x0 * t(numpy.pi))
        case("sign-inlined/%s" % tn, lambda ctx, x: ctx.sign(x) * x * x * x, t, t(1.7), t(1.7) * t(1.7) * t(1.7))
        case("large-integer-constant/%s" % tn, lambda ctx, x: x + ctx.constant(2**64, x), t, x0, x0 + t(2.0**64))
        case("remainder/%s" % tn, lambda ctx, x: ctx.remainder(x, ctx.constant(0.75, x)) if hasattr(ctx, "remainder") else x % ctx.constant(0.75, x), t, t(2.0), t(2.0) % t(0.75))
        case("boolean-constant-in-select/%s" % tn, lambda ctx, x: ctx.select(ctx.logical_and(x < x + x, ctx.constant(True)), x, -x), t, x0, x0)
    results = {}
    for name, fn, t, xval, want in cases:
        ct = "float" if t is f32 else "double"
        it = "uint32_t" if t is f32 else "uint64_t"
        prob = None
        try:
            def f(ctx, x: float):
                return fn(ctx, x)

            with warnings.catch_warnings(), contextlib.redirect_stdout(io.StringIO()):
                warnings.simplefilter("ignore")
                ctx = fa.Context(paths=[fa.algorithms])
                g = ctx.trace(f, t).rewrite(T.cpp)
                src = g.tostring(T.cpp)
        except NotImplementedError:
            results[name] = NotImplemented  # the target does not accept this graph
            continue
        except Exception as e:
            results[name] = "printing raised %r" % (e,)
            continue
        mname = re.search(r"\b(\w+)\s*\(", src[src.index(ct) :] if ct in src else src)
        fname = re.search(r"(\w+)\(%s \w+\)" % ct, src)
        prog = "#include <cstdio>\n#include <cstring>\n#include <cstdint>\n" + T.cpp.source_file_header + "\n" + src + "\nint main(){ %s x = (%s)%r; %s r = %s(x); %s b; std::memcpy(&b, &r, sizeof b); printf(\"%%llx\\n\", (unsigned long long)b); return 0; }\n" % (ct, ct, float(xval), ct, fname.group(1) if fname else "f", it)
        fn_c = os.path.join(work, "t_%d.cpp" % len(results))
        with open(fn_c, "w") as fh:
            fh.write(prog)
        exe = fn_c[:-4]
        pr = subprocess.run(["g++", "-O0", "-w", "-o", exe, fn_c], capture_output=True, text=True)
        if pr.returncode:
            errs = [ln for ln in pr.stderr.splitlines() if "error" in ln]
            results[name] = "does not compile: %s" % (errs[0][-160:] if errs else pr.stderr[-160:])
            continue
        out = subprocess.run([exe], capture_output=True, text=True).stdout.strip()
        got = int(out, 16) if out else None
        wantbits = int(numpy.asarray(want, dtype=t).view(numpy.uint32 if t is f32 else numpy.uint64))
        if numpy.isnan(want):
            gv = numpy.array([got or 0], dtype=numpy.uint32 if t is f32 else numpy.uint64).view(t)[0]
            ok = bool(numpy.isnan(gv))
        else:
            ok = got == wantbits
        results[name] = None if ok else "returns bits %s, the graph evaluates to %r (bits %x) at x = %r" % (out, want, wantbits, xval)
    import shutil

    shutil.rmtree(work, ignore_errors=True)
    for name, prob in sorted(results.items()):
        if prob is NotImplemented:
            rep.add(core.decided("C05/O9/cpp-function/%s" % name, PROP, None, functions=fnid, text="the C++ target does not accept this graph", claimed=False))
            continue
        rep.add(core.decided("C05/O9/cpp-function/%s" % name, PROP, prob is None, functions=fnid, text="the emitted C++ function compiles and returns the value of the graph in the declared type", detail=dict(problem=prob), meta=dict(target="cpp", kind="cpp-function " + name.split("/")[0], problem=prob)))


# --------------------------------------------------------------------------------------------- main
def replay_any(o):
    m = o.meta or {}
    return dict(replayed=True, witness_class="%s %s" % (m.get("target", ""), m.get("kind", o.id.split("/")[2] if o.id.count("/") > 1 else "")), detail={k: m.get(k) for k in ("template", "bad", "stderr") if m.get(k)})


def build(tier):
    rep = core.Report(PROP, tier)
    rep.trust("Python ast / compile and g++ 12 as decision procedures for single templates", "the independent spec tables and reference semantics in this file", "CPython executing the real printer / registration code")
    rep.assume(
        "semantics of the primitive libraries (Python math, NumPy scalar functions, libm) - the templates are checked to NAME the right primitive and pass operands in order, and to agree with the reference on a grid; the primitives themselves are trusted",
        "transcendental C++ templates may differ from NumPy's implementation by 1 ulp (different libm entry points)",
        "value text round trip: float(repr(v)) == v and the shortest repr of a float32 parsed as double and cast back (language guarantee, not checked here)",
        "induction over the graph (O1-O5 => the emitted program evaluates the graph) is an argument over these contracts, not a mechanised proof; callable templates (upcast/downcast/list) and the apply/make_apply function wrappers are not under contract",
    )
    rep.extraction_drops.append("O2 runs the real tostring for one node with the recursive calls on operands replaced by their contract")
    for t in ("python", "numpy"):
        try:
            template_obligations_py(rep, t)
        except Exception:
            rep.add(core.decided("C05/O1/%s/engine" % t, PROP, core.ERROR, text=traceback.format_exc()[-1500:]))
    for f in (template_obligations_cpp, composition_obligations, printer_step_obligations, need_ref_obligations, reference_obligations, constant_obligations, list_argument_obligations, auto_reference_obligations, cpp_function_obligations):
        try:
            f(rep)
        except Exception:
            rep.add(core.decided("C05/%s/engine" % f.__name__, PROP, core.ERROR, text=traceback.format_exc()[-1500:]))
    rep.add(core.decided("C05/canary/swapped-operands", PROP, canon(ast.parse("(b) - (a)", mode="eval").body, ["a", "b"]) != spec("subtract", "python"), text="canary: a template with swapped operands does not match the spec", kind="canary"))
    rep.replayers["C05/"] = replay_any
    # bounded stand-in for the induction step the obligations leave to an argument: random graphs end to end (never proofs)
    from vf.contracts import C05_bounded

    C05_bounded.run(rep, tier)
    rep.replayers["C05/bounded"] = C05_bounded.replay
    return rep


def main(tier, only=None):
    rep = build(tier)
    if only:
        rep.obls = [o for o in rep.obls if only in o.id]
    return rep.finish()


def replay(path):
    d = json.load(open(path))
    print(json.dumps(d.get("meta"), indent=1, default=str))
    return 1
