"""C11 - emulated compound operations: the single-operation members, bit-precisely (E1).

Claimed:
  floating_point_algorithms.next / nextup / nextdown : for every normal finite x whose neighbour in that direction is
      also normal, the result is nextafter(x, +-inf): bit pattern +-1.
  floating_point_algorithms.is_power_of_two (and invert=True): on the documented domain the answer is
      "the fraction field is zero" - exact.
  floating_point_algorithms.is_one_or_three_times_power_of_two: where P*x is finite and x is normal with a normal
      result chain, the answer is "fraction field is 0 or 100..0".
The real functions (through their make_api wrappers) run on symbolic floats; the single multiplications / division by
format constants are bit-blasted.  NOT reached (generated nowhere, stated): 3Sum/4Sum/add_dw/mul_add/dot2 and the fma
emulations (ULP bounds against RN of an exact result need a wide exact reference per path; the two-operand Dekker
products inside already exhaust the budget - see C10).
"""
from __future__ import annotations

import json
import traceback

import numpy
import z3

from vf import core, symfp, symrun
from vf.symrun import FMT, UINT, SymBool, SymFP, explore, vc

PROP = "C11"
TYPES = [numpy.float16, numpy.float32, numpy.float64]
# documented domain of is_power_of_two: 2**lo <= |x| < 2**hi
POW2_DOMAIN = {numpy.float16: (-24, 6), numpy.float32: (-129, 105), numpy.float64: (-1074, 972)}


def S(t):
    return z3.FPSort(*FMT[t])


def finite(e):
    return z3.Not(z3.Or(z3.fpIsInf(e), z3.fpIsNaN(e)))


def pow2(t, k):
    """2**k as an FP value of type t (clamped into the representable range, subnormals included)"""
    with numpy.errstate(all="ignore"):
        return symrun.fpval(numpy.ldexp(t(1), k), FMT[t])


def impl_of(api):
    """the decorated implementation behind a make_api wrapper (the wrapper's return-type check rejects symbolic booleans)"""
    import types

    for cell in api.__closure__ or ():
        c = cell.cell_contents
        if isinstance(c, types.FunctionType) and c.__name__ == api.__name__:
            return c
    raise symrun.Unsupported("implementation of %s not found" % api.__name__)


def helper_constants(t):
    """(Q, P) as supplied by the package's own helper get_is_power_of_two_constants: the helper is written for tracing
    contexts, so it is traced, rewritten for the NumPy target and evaluated (a closed expression per format)."""
    import warnings

    import functional_algorithms as fa
    import functional_algorithms.floating_point_algorithms as F

    def mk(i):
        def f(ctx, x: float):
            largest = ctx.constant("largest", x).reference("largest")
            return F.get_is_power_of_two_constants(ctx, largest)[i]

        return f

    out = []
    for i in (0, 1):
        f = mk(i)

        with warnings.catch_warnings():
            warnings.simplefilter("ignore")
            ctx = fa.Context(paths=[fa.algorithms])
            g = ctx.trace(f, t).rewrite(fa.targets.numpy, fa.rewrite)
            out.append(t(fa.targets.numpy.as_function(g)(t(1))))
    return tuple(out)


def build(tier, only=None):
    import functional_algorithms.floating_point_algorithms as F

    rep = core.Report(PROP, tier)
    rep.trust("z3 5.1 QF_FP (one multiplication / division by a format constant per obligation)", "NumPy scalar arithmetic = SMT-LIB FP with RNE")
    rep.assume(
        "domains as documented: next: x normal and its neighbour normal; is_power_of_two: 2**lo <= |x| < 2**hi per format (from the docstring); is_one_or_three_times_power_of_two: P*x finite, x and the intermediate results normal",
        "is_power_of_two / is_one_or_three_times_power_of_two: the decorated implementation is called directly (the make_api wrapper's return-type check only accepts concrete booleans)",
        "next at float64: the branch that multiplies by 1 - 2**-p is attempted in the thorough tier only and not claimed (no solver head-room); the dividing branch, and both branches at float16/float32, are claimed (float32 multiplication branch: cvc5)",
        "3Sum, 4Sum, mul_add, dot2 and the fma emulations are NOT under contract: their ULP bounds against the correctly rounded exact result were not reachable deductively (monolithic bit-blasting of one exact two-sum does not finish at float16); a BOUNDED native stand-in on directed operand tuples is run instead and is never counted as proved",
        "fma variants are exercised on their documented domains: fix_overflow=False away from the overflow margin, possibly_zero_z=False with z != 0; the intermediate-underflow region is reported best-effort only",
    )
    rep.extraction_drops.append("the make_api dispatch wrapper runs for real on a NumpyContext subclass")
    SymCtx = symfp.sym_ctx_class()
    for t in TYPES:
        eb, sb = FMT[t]
        n = eb + sb
        x = z3.FP("x", S(t))
        tn = t.__name__
        bits = z3.fpToIEEEBV(x)
        # ---- next / nextup / nextdown
        for fname, call, up in (("next[up=True]", lambda c, v: F.next(c, v, up=True), True), ("next[up=False]", lambda c, v: F.next(c, v, up=False), False), ("nextup", lambda c, v: F.nextup(c, v), True), ("nextdown", lambda c, v: F.nextdown(c, v), False)):
            fn = ("floating_point_algorithms.%s" % fname.split("[")[0],)
            rep.under_contract(fn[0], "result = nextafter(x, +-inf) for normal x with a normal neighbour")

            # the operand as a bit-vector variable, so that the obligation stays within what cvc5 parses (no fp.to_ieee_bv)
            xb = z3.BitVec("xb", n)
            xf = z3.fpBVToFP(xb, S(t))

            def run(e, call=call, t=t, x=xf):
                return call(SymCtx(t), SymFP(x, t))

            try:
                paths = explore(run, int_width=64)
            except Exception:
                rep.add(core.decided("C11/%s/%s/engine" % (fname, tn), PROP, core.ERROR, functions=fn, text=traceback.format_exc()[-800:]))
                continue
            for p in paths:
                base = "C11/floating_point_algorithms.%s/%s/path=%s" % (fname, tn, p.sig())
                if p.exc is not None or not isinstance(p.result, SymFP):
                    rep.add(core.decided(base + "/returns-float", PROP, False, functions=fn, text="raised / returned %r" % (p.exc or type(p.result),)))
                    continue
                r = p.result.e
                # nextafter towards +inf: positive -> pattern + 1, negative -> pattern - 1 (magnitude shrinks); mirrored for -inf
                inc = z3.fpIsPositive(xf) if up else z3.fpIsNegative(xf)
                want = z3.If(inc, xb + 1, xb - 1)
                wantf = z3.fpBVToFP(want, S(t))
                pre = [z3.fpIsNormal(xf), z3.fpIsNormal(wantf)]
                # the multiplication branch (x * (1 - 2**-p), path F): z3 exhausts any budget at float32/float64; cvc5 decides float32 in
                # about 3 minutes (claimed, generous budget); float64 is attempted in the thorough tier only and not claimed
                mulpath = t is not numpy.float16 and p.sig() != "T"
                cl = not (mulpath and t is numpy.float64)
                if mulpath and t is numpy.float64 and tier == "quick":
                    continue
                rep.add(core.smt(base + "/is-nextafter", PROP, vc(p, r == wantf, extra_hyp=pre), functions=fn, text="result = the float whose pattern is bits(x) +- 1, for normal x with a normal neighbour", budget_s=(1500 if cl else 600) if mulpath else 300, claimed=cl, backend="z3+cvc5:15" if mulpath else "z3", meta=dict(fn=fname, t=tn)))
        # ---- is_power_of_two
        lo, hi = POW2_DOMAIN[t]
        try:
            hQ, hP = helper_constants(t)
        except Exception:
            hQ = hP = None
            rep.add(core.decided("C11/get_is_power_of_two_constants/%s/engine" % tn, PROP, core.ERROR, functions=("floating_point_algorithms.get_is_power_of_two_constants",), text=traceback.format_exc()[-800:]))
        for invert, consts in ((False, "default"), (True, "default"), (False, "helper")):
            fn = ("floating_point_algorithms.is_power_of_two",) + (("floating_point_algorithms.get_is_power_of_two_constants",) if consts == "helper" else ())
            rep.under_contract(fn[-1], "exact on the documented domain" if consts == "default" else "supplies (Q, P) with which is_power_of_two is exact")
            if consts == "helper" and hQ is None:
                continue

            def run(e, t=t, x=x, invert=invert, consts=consts, hQ=hQ, hP=hP):
                if consts == "helper":
                    return impl_of(F.is_power_of_two)(SymCtx(t), t, SymFP(x, t), Q=hQ, P=hP, invert=invert)
                return impl_of(F.is_power_of_two)(SymCtx(t), t, SymFP(x, t), invert=invert)

            try:
                paths = explore(run, int_width=64)
            except Exception:
                rep.add(core.decided("C11/is_power_of_two/%s/invert=%s/%s/engine" % (tn, invert, consts), PROP, core.ERROR, functions=fn, text=traceback.format_exc()[-800:]))
                continue
            for p in paths:
                base = "C11/floating_point_algorithms.is_power_of_two%s/%s/invert=%s/path=%s" % ("[constants of get_is_power_of_two_constants]" if consts == "helper" else "", tn, invert, p.sig())
                res = p.result
                if p.exc is not None or not isinstance(res, (SymBool, bool, numpy.bool_)):
                    rep.add(core.decided(base + "/returns-bool", PROP, False, functions=fn, text="raised / returned %r" % (p.exc or type(res),)))
                    continue
                rv = res.e if isinstance(res, SymBool) else z3.BoolVal(bool(res))
                ax = z3.fpAbs(x)
                dom = [finite(x), z3.fpGEQ(ax, pow2(t, lo)), z3.fpLT(ax, pow2(t, hi))]
                # a power of two: exactly one bit of the significand is set (normal: fraction 0; subnormal: one fraction bit)
                frac = z3.Extract(sb - 2, 0, bits)
                ispow2 = z3.If(z3.fpIsSubnormal(x), z3.And(frac != 0, (frac & (frac - 1)) == 0), z3.And(z3.fpIsNormal(x), frac == 0))
                goal = rv == (z3.Not(ispow2) if invert else ispow2)
                rep.add(core.smt(base + "/exact", PROP, vc(p, goal, extra_hyp=dom), functions=fn, text="answer == (|x| is a power of two) for 2**%d <= |x| < 2**%d" % (lo, hi), budget_s=300, meta=dict(fn="is_power_of_two", t=tn, invert=invert, consts=consts)))
                s = z3.Solver()
                for c in dom + p.pc:
                    s.add(c)
                rep.add(core.smt(base + "/cover", PROP, s, functions=fn, text="cover: the documented domain is inhabited on this path", expect="sat", kind="cover", budget_s=60))
        # ---- is_one_or_three_times_power_of_two
        fn = ("floating_point_algorithms.is_one_or_three_times_power_of_two",)
        rep.under_contract(fn[0], "exact where P*x is finite and the chain stays normal")

        def run3(e, t=t, x=x):
            return impl_of(F.is_one_or_three_times_power_of_two)(SymCtx(t), t, SymFP(x, t))

        try:
            paths = explore(run3, int_width=64)
        except Exception:
            rep.add(core.decided("C11/is_one_or_three_times_power_of_two/%s/engine" % tn, PROP, core.ERROR, functions=fn, text=traceback.format_exc()[-800:]))
            paths = []
        for p in paths:
            base = "C11/floating_point_algorithms.is_one_or_three_times_power_of_two/%s/path=%s" % (tn, p.sig())
            res = p.result
            if p.exc is not None or not isinstance(res, (SymBool, bool, numpy.bool_)):
                rep.add(core.decided(base + "/returns-bool", PROP, False, functions=fn, text="raised / returned %r" % (p.exc or type(res),)))
                continue
            rv = res.e if isinstance(res, SymBool) else z3.BoolVal(bool(res))
            pconst = symrun.fpval(F._is_one_or_three_times_power_of_two_parameters(t)["P"], FMT[t])
            prod = z3.fpMul(z3.RNE(), pconst, x)
            dom = [z3.fpIsNormal(x), finite(prod), z3.fpIsNormal(z3.fpMul(z3.RNE(), symrun.fpval(F._is_one_or_three_times_power_of_two_parameters(t)["Q"], FMT[t]), x))]
            frac = z3.Extract(sb - 2, 0, bits)
            is13 = z3.Or(frac == 0, frac == (1 << (sb - 2)))
            rep.add(core.smt(base + "/exact", PROP, vc(p, rv == is13, extra_hyp=dom), functions=fn, text="answer == (significand is 1.0 or 1.5) for normal x with P*x finite", budget_s=300, meta=dict(fn="is_one_or_three", t=tn)))
    # canary
    x = z3.FP("x", S(numpy.float16))
    s = z3.Solver()
    s.add(z3.fpIsNormal(x), z3.fpIsPositive(x), z3.fpToIEEEBV(z3.fpMul(z3.RNE(), x, symrun.fpval(1 + 2.0**-11, (5, 11)))) != z3.fpToIEEEBV(x) + 1)
    rep.add(core.smt("C11/canary/wrong-constant", PROP, s, text="canary: multiplying by 1 + 2**-p is not nextafter for every x", expect="sat", kind="canary", budget_s=60))
    rep.replayers["C11/"] = native_replay
    # bounded stand-in for the compound operations (labelled bounded; never counted as proved)
    if only is None or "bounded" in only:
        from vf.contracts import C11_bounded

        C11_bounded.run(rep, tier)
        rep.replayers["C11/bounded"] = C11_bounded.replay
    return rep


def native_replay(o):
    import functional_algorithms.floating_point_algorithms as F
    import functional_algorithms.utils as U

    meta = o.meta or {}
    m = o.model or {}
    xbits = m["xb"].get("value") if "xb" in m else (m.get("x") or {}).get("bits")
    if "t" not in meta or xbits is None:
        return dict(replayed=False, witness_class=None)
    t = getattr(numpy, meta["t"])
    x = UINT[t](xbits).view(t)
    ctx = U.NumpyContext(default_constant_type=t)
    info = dict(x=repr(x), witness_class="%s %s" % (meta["fn"], meta["t"]))
    with numpy.errstate(all="ignore"):
        if meta["fn"].startswith("next"):
            up = "False" not in meta["fn"] and meta["fn"] != "nextdown"
            got = {"nextup": F.nextup, "nextdown": F.nextdown}.get(meta["fn"], lambda c, v: F.next(c, v, up=up))(ctx, x)
            want = numpy.nextafter(x, t(numpy.inf if up else -numpy.inf))
            info.update(got=repr(got), want=repr(want), replayed=bool(got != want))
        elif meta["fn"] == "is_power_of_two":
            if meta.get("consts") == "helper":
                hQ, hP = helper_constants(t)
                got = F.is_power_of_two(ctx, x, Q=hQ, P=hP, invert=meta["invert"])
                info.update(Q=repr(hQ), P=repr(hP), witness_class="is_power_of_two with helper constants " + meta["t"])
            else:
                got = F.is_power_of_two(ctx, x, invert=meta["invert"])
            mant, _ = numpy.frexp(x)
            truth = abs(mant) == 0.5
            info.update(got=repr(got), truth=bool(truth), replayed=bool(bool(got) != (not truth if meta["invert"] else truth)))
        else:
            got = F.is_one_or_three_times_power_of_two(ctx, x)
            mant, _ = numpy.frexp(x)
            truth = abs(mant) in (0.5, 0.75)
            info.update(got=repr(got), truth=bool(truth), replayed=bool(bool(got) != truth))
    return info


def main(tier, only=None):
    rep = build(tier, only)
    if only:
        rep.obls = [o for o in rep.obls if only in o.id]
    return rep.finish()


def replay(path):
    d = json.load(open(path))
    o = core.Obligation(id=d["obligation"], prop=PROP, model=d.get("model"), meta=d.get("meta") or {})
    if (o.meta or {}).get("part") == "bounded":
        from vf.contracts import C11_bounded

        again = C11_bounded.rerun(o.meta)
        print(json.dumps(dict(recorded=o.meta.get("fails"), rerun=again), indent=1, default=str))
        return 1 if (any(a.get("ulps", 0) > 1 for a in again) if again else bool(o.meta.get("fails"))) else 0
    info = native_replay(o)
    print(json.dumps(info, indent=1, default=str))
    return 1 if info.get("replayed") else 0
