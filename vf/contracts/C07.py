"""C07 - expression identity is structural identity (sound hash-consing).

Invariant WF(ctx): `_expressions` maps key(e) -> e; intkeys of registered expressions are pairwise distinct and
below `_expression_counter`; two registered expressions with equal (kind, operand objects) are the same object.
"No history can alias" is WF as an invariant of every constructor call (induction over the history).

Obligations, all over the REAL code objects (executed on abstract objects assembled from the real functions):
  O1a  Expr._two_level_intkey is injective on registered operands (symbolic intkeys, WF as hypothesis)
  O1b  Expr._compute_serialized (operator kinds): equal keys => same kind, same arity, operand-wise equal
       two-level keys  (the operand keys are abstract tokens: the callee contract O1a)
  O1c  symbol / constant / operator keys never collide with each other
  O2   constant value keys: dict-equality of the key component built by the real code  <=>  identical value
       (same class, same bit pattern / integer / truth value), for bool, int, float, numpy.float16/32/64/longdouble
  O3   Context._register_expression: returns the registered object iff the key is present, otherwise registers
       under exactly that key with id = old counter, counter + 1; frame: nothing else written
  O4   Type singletons: one object per (kind, param) per context (finite domain, enumerated)
  O5   normalize_like preserves the reference type (get_type / is_complex) - the `like` of a constant
"""
from __future__ import annotations

import itertools
import json
import traceback
import types

import numpy
import z3

from vf import core, symrun
from vf.symrun import Engine, SymBool, SymFP, explore as sym_explore

PROP = "C07"


# --------------------------------------------------------------------------------------------- abstract objects
def fake_class():
    """objects that carry the REAL key functions of Expr (the function objects themselves)"""
    from functional_algorithms.expr import Expr

    ns = {}
    for name in ("intkey", "key", "_two_level_intkey", "_compute_serialized", "_set_serialized_id"):
        ns[name] = vars(Expr)[name]
    return type("AbstractExpr", (), ns)


class ZInt(symrun.Sym):
    """an unbounded integer (intkey) as z3 Int; only equality is needed"""

    __slots__ = ("e",)

    def __init__(self, e):
        self.e = e

    def __hash__(self):
        return id(self)


def key_eq(a, b):
    """Python's equality of two key tuples (used by dict lookup), as a formula"""
    if isinstance(a, tuple) or isinstance(b, tuple):
        if not (isinstance(a, tuple) and isinstance(b, tuple)) or len(a) != len(b):
            return z3.BoolVal(False)
        return z3.And([key_eq(x, y) for x, y in zip(a, b)]) if a else z3.BoolVal(True)
    if isinstance(a, ZInt) and isinstance(b, ZInt):
        return a.e == b.e
    if isinstance(a, Token) or isinstance(b, Token):
        if isinstance(a, Token) and isinstance(b, Token):
            return a.e == b.e
        return z3.BoolVal(False)
    if isinstance(a, symrun.Sym) or isinstance(b, symrun.Sym):
        return value_eq(a, b)
    try:
        return z3.BoolVal(bool(a == b))
    except Exception:
        return z3.BoolVal(False)


class Token(symrun.Sym):
    """an abstract hashable value with equality (a callee's key under its injectivity contract)"""

    __slots__ = ("e",)
    SORT = z3.DeclareSort("Tok")

    def __init__(self, name):
        self.e = z3.Const(name, Token.SORT)

    def __hash__(self):
        return id(self)


def value_eq(a, b):
    """Python `==` between two constant payloads of possibly different classes (identity shortcut does not apply:
    the two payloads are different objects)"""
    if isinstance(a, SymFP) and isinstance(b, SymFP):
        if a.fmt == b.fmt:
            return z3.fpEQ(a.e, b.e)
        # numeric comparison across formats: exact in the wider one
        w = a if sum(a.fmt) >= sum(b.fmt) else b
        S = z3.FPSort(*w.fmt)
        return z3.fpEQ(z3.fpFPToFP(z3.RNE(), a.e, S), z3.fpFPToFP(z3.RNE(), b.e, S))
    if isinstance(a, StrOf) and isinstance(b, StrOf):
        return a.eq(b)
    if isinstance(a, StrOf) or isinstance(b, StrOf):
        return z3.BoolVal(False) if not (isinstance(a, str) or isinstance(b, str)) else z3.BoolVal(False)
    if isinstance(a, ZInt) and isinstance(b, ZInt):
        return a.e == b.e
    raise symrun.Unsupported("== between %r and %r" % (type(a), type(b)))


class StrOf(symrun.Sym):
    """str(v) / repr(v) of a float payload.  Assumed contract of CPython/NumPy: shortest round-trip repr is
    injective on non-NaN values of one class (it distinguishes -0.0 from 0.0) and maps every NaN to 'nan'."""

    __slots__ = ("v",)

    def __init__(self, v):
        self.v = v

    def __hash__(self):
        return id(self)

    def eq(self, o):
        a, b = self.v, o.v
        if a.t is not b.t:
            # different classes may print alike (float32(1.0) and 1.0 both '1.0'): equal iff numerically equal and same sign of zero
            S = z3.FPSort(15, 64)
            x, y = z3.fpFPToFP(z3.RNE(), a.e, S), z3.fpFPToFP(z3.RNE(), b.e, S)
            return z3.Or(z3.And(z3.fpIsNaN(x), z3.fpIsNaN(y)), z3.fpToIEEEBV(x) == z3.fpToIEEEBV(y)) if False else z3.Or(z3.And(z3.fpIsNaN(x), z3.fpIsNaN(y)), z3.And(z3.fpEQ(x, y), z3.fpIsNegative(x) == z3.fpIsNegative(y)))
        return z3.Or(z3.And(z3.fpIsNaN(a.e), z3.fpIsNaN(b.e)), z3.And(z3.fpEQ(a.e, b.e), z3.fpIsNegative(a.e) == z3.fpIsNegative(b.e)))


def _str(x="", *a):
    if isinstance(x, SymFP):
        return StrOf(x)
    if isinstance(x, symrun.Sym):
        raise symrun.Unsupported("str(%s)" % type(x).__name__)
    import builtins

    return builtins.str(x, *a)


def _float(x=0.0):
    import builtins

    if isinstance(x, SymFP):
        if x.fmt == (11, 53):
            return SymFP(x.e, float)
        return SymFP(z3.fpFPToFP(z3.RNE(), x.e, z3.FPSort(11, 53)), float)
    if isinstance(x, symrun.Sym):
        raise symrun.Unsupported("float(%s)" % type(x).__name__)
    return builtins.float(x)


def _hash(x):
    import builtins

    if isinstance(x, symrun.Sym):
        raise symrun.Unsupported("hash() of a symbolic payload inside the key: the key would depend on a hash value")
    return builtins.hash(x)


def shadowed_expr_function(f, extra=None):
    import builtins

    import functional_algorithms.expr as E

    g = dict(E.__dict__)
    g.update(isinstance=symrun._isinstance, type=symrun._type, str=symrun.type_shadow(builtins.str, _str), repr=_str, float=symrun.type_shadow(builtins.float, _float), hash=_hash, abs=symrun._abs)
    if extra:
        g.update(extra)
    nf = types.FunctionType(f.__code__, g, f.__name__, f.__defaults__, f.__closure__)
    return nf


# --------------------------------------------------------------------------------------------- O2
VALUE_CLASSES = [("float", float, (11, 53)), ("float16", numpy.float16, (5, 11)), ("float32", numpy.float32, (8, 24)), ("float64", numpy.float64, (11, 53)), ("longdouble", numpy.longdouble, (15, 64))]


def const_key_component(value, cs):
    """run the real _compute_serialized on an abstract constant and return the key component of the value"""
    from functional_algorithms.expr import Expr

    class Like:
        key = ("like",)

    Fake = fake_class()
    obj = Fake()
    obj.kind = "constant"
    obj.operands = (value, Like())
    cs(obj)
    k = obj._Expr__serialized
    if not (isinstance(k, tuple) and len(k) == 3 and k[2] == ("like",)):
        raise symrun.Unsupported("unexpected constant key layout %r" % (k,))
    return k[0], k[1]


def obligations_O2(rep):
    from functional_algorithms.expr import Expr

    symrun.FMT.setdefault(float, (11, 53))
    symrun.FMT.setdefault(numpy.longdouble, (15, 64))
    cs = shadowed_expr_function(vars(Expr)["_compute_serialized"])
    fn = ("expr.Expr._compute_serialized",)
    Engine.cur = Engine()
    try:
        for (na, ta, fa), (nb, tb, fb) in itertools.combinations_with_replacement(VALUE_CLASSES, 2):
            a = SymFP(z3.FP("a", z3.FPSort(*fa)), ta)
            b = SymFP(z3.FP("b", z3.FPSort(*fb)), tb)
            try:
                pa, ka = const_key_component(a, cs)
                pb, kb = const_key_component(b, cs)
            except symrun.Unsupported as u:
                rep.add(core.decided("C07/O2/const-key/%s,%s" % (na, nb), PROP, None, functions=fn, text="outside the subset: %s" % u))
                continue
            if pa != pb:
                rep.add(core.decided("C07/O2/const-key/%s,%s/prefix" % (na, nb), PROP, False, functions=fn, text="constant keys carry different prefixes %r %r" % (pa, pb)))
                continue
            eq = key_eq(ka, kb)
            if ta is tb:
                bits_a, bits_b = z3.fpToIEEEBV(a.e), z3.fpToIEEEBV(b.e)
                ident = z3.Or(bits_a == bits_b, z3.And(z3.fpIsNaN(a.e), z3.fpIsNaN(b.e)))
                # (1) no false sharing: equal keys => identical value (same bit pattern)
                s = z3.Solver()
                s.add(eq, z3.Not(ident))
                rep.add(core.smt("C07/O2/const-key/%s/no-false-sharing" % na, PROP, s, functions=fn, text="two %s constants with equal keys have the same bit pattern (sign of zero included)" % na, budget_s=60, meta=dict(cls=na, clause="no-false-sharing")))
                # (2) sharing: identical values => equal keys
                s = z3.Solver()
                s.add(ident, z3.Not(eq))
                rep.add(core.smt("C07/O2/const-key/%s/identical-values-share" % na, PROP, s, functions=fn, text="two %s constants with the same bit pattern have equal keys" % na, budget_s=60, meta=dict(cls=na, clause="identical-values-share")))
            else:
                s = z3.Solver()
                s.add(eq)
                rep.add(core.smt("C07/O2/const-key/%s,%s/classes-never-share" % (na, nb), PROP, s, functions=fn, text="a %s and a %s constant never have equal keys (the value's type is part of the identity)" % (na, nb), budget_s=60, meta=dict(cls=na, cls2=nb, clause="classes-never-share")))
    finally:
        Engine.cur = None
    # ground cases: bool / int / float literals that compare equal in Python must still get different keys
    csr = vars(Expr)["_compute_serialized"]
    Fake = fake_class()

    class Like:
        key = ("like",)

    def real_key(v):
        o = Fake()
        o.kind = "constant"
        o.operands = (v, Like())
        csr(o)
        return o._Expr__serialized

    lits = [True, False, 0, 1, -1, 2, 0.0, -0.0, 1.0, 2.0, numpy.float32(1), numpy.float64(1), numpy.float16(1), numpy.float32(0), numpy.float32(-0.0), numpy.float64(-0.0), numpy.int64(1), numpy.int32(1), 1 + 0j, numpy.complex64(1), numpy.complex128(1), complex(-1, 0.0), complex(-1, -0.0), complex(0.0, 1), complex(-0.0, 1), numpy.complex64(complex(-1, 0.0)), numpy.complex64(complex(-1, -0.0)), numpy.complex128(complex(0.0, 2)), numpy.complex128(complex(-0.0, 2)), "eps", "pi"]

    def identical(u, v):
        if type(u) is not type(v):
            return False
        if isinstance(u, (float, numpy.floating)):
            return numpy.float64(u).tobytes() == numpy.float64(v).tobytes() if isinstance(u, float) else u.tobytes() == v.tobytes()
        if isinstance(u, (complex, numpy.complexfloating)):
            return numpy.complex128(u).tobytes() == numpy.complex128(v).tobytes()
        return u == v

    bad = []
    n = 0
    for u, v in itertools.combinations(lits, 2):
        n += 1
        ku, kv = real_key(u), real_key(v)
        if (hash(ku) == hash(kv) and ku == kv) != identical(u, v):
            bad.append((repr(u), repr(v)))
    rep.add(core.decided("C07/O2/const-key/literals", PROP, not bad, functions=fn, text="%d pairs of literal values of all value classes: key equality (real dict semantics) <=> identical value" % n, detail=dict(bad=bad[:10]), meta=dict(clause="literals", bad=bad[:10])))


# --------------------------------------------------------------------------------------------- O1
def obligations_O1(rep):
    from functional_algorithms.expr import Expr, known_expression_kinds

    Fake = fake_class()
    fn_tl = ("expr.Expr._two_level_intkey",)
    fn_cs = ("expr.Expr._compute_serialized",)

    def leaf(kind, name):
        o = Fake()
        o.kind = kind
        o.operands = ()
        o._Expr__serialize_id = ZInt(z3.Int("id_" + name))
        return o

    def comp(kind, leaves, name):
        o = Fake()
        o.kind = kind
        o.operands = tuple(leaves)
        o._Expr__serialize_id = ZInt(z3.Int("id_" + name))
        return o

    # O1a: two-level keys are injective on registered operands
    # composites up to 6 operands (lists, apply bodies and list arguments are n-ary): every operand position must count
    shapes = [("leaf", "symbol", 0), ("leaf", "constant", 0)] + [("comp", k, n) for k in ("add", "negative") for n in (1, 2, 3)] + [("comp", "list", n) for n in (1, 2, 3, 4, 5, 6)]

    def build(shape, tag):
        typ, kind, n = shape
        if typ == "leaf":
            return leaf(kind, tag), []
        ls = [leaf("symbol", "%s%d" % (tag, i)) for i in range(n)]
        return comp(kind, ls, tag), ls

    for sa, sb in itertools.product(shapes, shapes):
        a, la = build(sa, "a")
        b, lb = build(sb, "b")
        ka, kb = a._two_level_intkey, b._two_level_intkey
        eq = key_eq(ka, kb)
        # structural identity under WF: leaves are the same object iff their intkeys are equal; composites are the same
        # object iff same kind and the same operand objects (hash-consing invariant)
        if sa[0] == "leaf" and sb[0] == "leaf":
            same = z3.And(z3.BoolVal(sa[1] == sb[1]), a.intkey.e == b.intkey.e)
        elif sa[0] == "comp" and sb[0] == "comp":
            same = z3.And(z3.BoolVal(sa[1] == sb[1] and sa[2] == sb[2]), *[x.intkey.e == y.intkey.e for x, y in zip(la, lb)]) if sa[2] == sb[2] else z3.BoolVal(False)
        else:
            same = z3.BoolVal(False)
        s = z3.Solver()
        s.add(eq != same)
        rep.add(core.smt("C07/O1a/two-level-key-injective/%s-%s%d/%s-%s%d" % (sa + sb), PROP, s, functions=fn_tl, text="two-level keys equal <=> same object (WF: intkeys identify registered objects)", budget_s=20, meta=dict(clause="O1a")))
    # O1b: operator keys (operand two-level keys abstracted by tokens = contract O1a)
    class Opnd:
        def __init__(self, name):
            self._two_level_intkey = Token(name)

    for k1, k2 in (("add", "add"), ("add", "multiply")):
        for n1 in range(0, 5):
            for n2 in range(0, 5):
                a, b = Fake(), Fake()
                a.kind, b.kind = k1, k2
                a.operands = tuple(Opnd("ta%d" % i) for i in range(n1))
                b.operands = tuple(Opnd("tb%d" % i) for i in range(n2))
                a._compute_serialized()
                b._compute_serialized()
                eq = key_eq(a.key, b.key)
                same = z3.And(z3.BoolVal(k1 == k2 and n1 == n2), *[x._two_level_intkey.e == y._two_level_intkey.e for x, y in zip(a.operands, b.operands)]) if (k1 == k2 and n1 == n2) else z3.BoolVal(False)
                s = z3.Solver()
                s.add(eq != same)
                rep.add(core.smt("C07/O1b/operator-key/%s%d-%s%d" % (k1, n1, k2, n2), PROP, s, functions=fn_cs, text="operator keys equal <=> same kind, same arity, operand-wise equal two-level keys", budget_s=20, meta=dict(clause="O1b")))
    # O1c: key spaces are disjoint
    sym, con, opr = Fake(), Fake(), Fake()
    sym.kind, sym.operands = "symbol", ("x", Token("T"))
    sym._compute_serialized()

    class Like:
        key = Token("likekey")

    con.kind, con.operands = "constant", (1.5, Like())
    con._compute_serialized()
    firsts = {sym.key[0], con.key[0]}
    ok = len(firsts) == 2 and not (firsts & set(known_expression_kinds) - {"symbol"}) and sym.key[0] == "symbol"
    ok = ok and con.key[0] not in known_expression_kinds
    rep.add(core.decided("C07/O1c/key-spaces-disjoint", PROP, ok, functions=fn_cs, text="symbol keys start with 'symbol', constant keys with a tag that is not an expression kind, operator keys with their kind", detail=dict(symbol=repr(sym.key[0]), constant=repr(con.key[0]))))
    # symbol key: name and Type object
    a, b = Fake(), Fake()
    a.kind = b.kind = "symbol"
    ta, tb = Token("Ta"), Token("Tb")
    a.operands, b.operands = ("x", ta), ("x", tb)
    a._compute_serialized(), b._compute_serialized()
    s = z3.Solver()
    s.add(key_eq(a.key, b.key) != (ta.e == tb.e))
    rep.add(core.smt("C07/O1c/symbol-key/type", PROP, s, functions=fn_cs, text="same-named symbols share a key iff their Type objects are equal", budget_s=20))
    a.operands, b.operands = ("x", ta), ("y", ta)
    a._compute_serialized(), b._compute_serialized()
    s = z3.Solver()
    s.add(key_eq(a.key, b.key))
    rep.add(core.smt("C07/O1c/symbol-key/name", PROP, s, functions=fn_cs, text="differently named symbols never share a key", budget_s=20))
    # constant key: like
    a, b = Fake(), Fake()
    a.kind = b.kind = "constant"

    class L1:
        key = Token("l1")

    class L2:
        key = Token("l2")

    a.operands, b.operands = (1.5, L1()), (1.5, L2())
    a._compute_serialized(), b._compute_serialized()
    s = z3.Solver()
    s.add(key_eq(a.key, b.key) != (L1.key.e == L2.key.e))
    rep.add(core.smt("C07/O1c/constant-key/like", PROP, s, functions=fn_cs, text="equal-valued constants share a key iff their reference (like) expressions have equal keys", budget_s=20))


# --------------------------------------------------------------------------------------------- O3
class GhostDict:
    def __init__(self, present, prev):
        self.present, self.prev = present, prev
        self.sets = []
        self.gets = []

    def get(self, k, default=None):
        self.gets.append(k)
        return self.prev if self.present else default

    def __setitem__(self, k, v):
        self.sets.append((k, v))

    def __getitem__(self, k):
        for kk, v in reversed(self.sets):
            if kk is k:
                return v
        if self.present:
            return self.prev
        raise KeyError(k)

    def __contains__(self, k):
        return self.present


def obligations_O3(rep):
    from functional_algorithms.context import Context

    fn = ("context.Context._register_expression",)
    f = vars(Context)["_register_expression"]
    for present in (False, True):
        for kind in ("add", "constant"):
            for same_type in (True, False):
                if not (present and kind == "constant") and not same_type:
                    continue

                class Obj:
                    pass

                prev = Obj()
                prev.kind, prev.operands, prev.props = kind, ((1.5, None) if kind == "constant" else ()), {}
                expr = Obj()
                expr.kind, expr.props = kind, {}
                expr.operands = ((1.5 if same_type else 1, None) if kind == "constant" else ())
                key = object()
                expr.key = key
                ids = []
                expr._set_serialized_id = lambda i, ids=ids: ids.append(i)
                ctx = Obj()
                ctx._expressions = GhostDict(present, prev)
                n0 = 41
                ctx._expression_counter = n0
                ctx._stack_name = "stack"
                ctx._ref_values = {}
                base = "C07/O3/register/%s/%s%s" % ("present" if present else "absent", kind, "" if same_type else "-type-mismatch")
                try:
                    import io, contextlib

                    with contextlib.redirect_stdout(io.StringIO()):
                        r = f(ctx, expr)
                    raised = None
                except RuntimeError as e:
                    r, raised = None, e
                except Exception as e:
                    rep.add(core.decided(base, PROP, False, functions=fn, text="raised %r" % (e,)))
                    continue
                d = ctx._expressions
                if present:
                    if not same_type:
                        ok = raised is not None and not d.sets and ctx._expression_counter == n0
                        text = "key present with a value of another type: refuses (RuntimeError), nothing written"
                    else:
                        ok = r is prev and not d.sets and not ids and ctx._expression_counter == n0 and d.gets == [key]
                        text = "key present: returns the registered object; no write, no id, counter unchanged"
                else:
                    ok = r is expr and len(d.sets) == 1 and d.sets[0][0] is key and d.sets[0][1] is expr and ids == [n0] and ctx._expression_counter == n0 + 1 and expr.props.get("origin") == "stack"
                    text = "key absent: registers exactly (key -> expr), id = old counter (fresh: all ids are below the counter), counter + 1"
                rep.add(core.decided(base, PROP, bool(ok), functions=fn, text=text, detail=dict(sets=len(d.sets), ids=ids, counter=ctx._expression_counter)))
    # the counter argument for freshness (WF: every registered id < counter) as an arithmetic lemma
    n, i = z3.Ints("n i")
    s = z3.Solver()
    s.add(i < n, i == n)
    rep.add(core.smt("C07/O3/fresh-id-lemma", PROP, s, functions=fn, text="ids of registered expressions are below the counter, so id = counter is fresh; WF is preserved", kind="lemma", budget_s=10))


# --------------------------------------------------------------------------------------------- O4
def obligations_O4(rep):
    import functional_algorithms as fa
    from functional_algorithms.typesystem import Type

    fn = ("typesystem.Type.__new__",)
    ctx, ctx2 = fa.Context(paths=[]), fa.Context(paths=[])
    kinds = ["float", "complex", "integer", "boolean"]
    params = [None, 8, 16, 32, 64, 128]
    objs = {}
    bad = []
    n = 0
    for k in kinds:
        for p in params:
            t1, t2 = Type(ctx, k, p), Type(ctx, k, p)
            n += 1
            if t1 is not t2:
                bad.append(("not singleton", k, p))
            objs[(k, p)] = t1
            if Type(ctx2, k, p) is t1:
                bad.append(("shared across contexts", k, p))
    for (k1, p1), (k2, p2) in itertools.combinations(objs, 2):
        n += 1
        if objs[(k1, p1)] is objs[(k2, p2)] or objs[(k1, p1)] == objs[(k2, p2)]:
            bad.append(("aliased", k1, p1, k2, p2))
    lt1 = Type(ctx, "list", (objs[("float", 32)], objs[("float", 64)]))
    lt2 = Type(ctx, "list", (objs[("float", 32)], objs[("float", 64)]))
    lt3 = Type(ctx, "list", (objs[("float", 64)], objs[("float", 32)]))
    if lt1 is not lt2 or lt1 is lt3:
        bad.append(("list type",))
    rep.add(core.decided("C07/O4/type-singletons", PROP, not bad, functions=fn, text="%d cases: Type(ctx, kind, param) is one object per (kind, param) per context, distinct otherwise" % n, detail=dict(bad=bad[:10])))


# --------------------------------------------------------------------------------------------- O5
def obligations_O5(rep):
    """normalize_like(e) carries the same reference type as e (homogeneously typed operands)"""
    import warnings

    import functional_algorithms as fa
    from functional_algorithms import expr as E

    fn = ("expr.normalize_like",)
    bad = []
    n = 0
    skipped = []
    with warnings.catch_warnings():
        warnings.simplefilter("ignore")
        for tname in ("float32", "float64", "complex64", "complex128"):
            ctx = fa.Context(paths=[])
            x, y = ctx.symbol("x", tname), ctx.symbol("y", tname)
            c = ctx.symbol("c", "boolean")
            cands = []
            from vf.symexpr import SIG

            arity = {k: (3 if v is None else len(v[0])) for k, v in SIG.items()}
            arity.update(complex=2, conjugate=1, real=1, imag=1, absolute=1)
            complex_ok = set("add subtract multiply divide negative positive sqrt square asin acos atan asinh acosh atanh sin cos tan sinh cosh tanh log log1p log2 log10 exp expm1 exp2 absolute real imag conjugate select eq ne".split())
            for kind in sorted(E.known_expression_kinds):
                if kind not in arity:
                    continue
                if tname.startswith("complex") and kind not in complex_ok:
                    continue  # well-typed programs only
                if tname.startswith("float") and kind in ("real", "imag", "conjugate"):
                    continue
                for ops in ((x,), (x, y), (c, x, y)):
                    if len(ops) != arity[kind] or (len(ops) == 3 and kind != "select"):
                        continue
                    if kind in ("logical_and", "logical_or", "logical_xor", "logical_not"):
                        ops = tuple(c for _ in ops)
                    try:
                        e = E.Expr(ctx, kind, ops)
                        t = e.get_type()
                        cands.append(e)
                    except Exception:
                        continue
            # one more level: kinds applied to abs(z) / real(z) / select
            for inner in list(cands):
                for kind in ("absolute", "negative", "select", "real", "imag"):
                    try:
                        if kind in ("real", "imag") and not inner.is_complex:
                            continue
                        if inner.get_type().kind == "boolean" and kind != "select":
                            continue
                    except NotImplementedError:
                        continue
                    try:
                        e = E.Expr(ctx, kind, (inner,) if kind != "select" else (c, inner, inner))
                        e.get_type()
                        cands.append(e)
                    except Exception:
                        continue
            for e in cands:
                try:
                    t = e.get_type()
                    r = E.normalize_like(e)
                    tr = r.get_type()
                    e.is_complex, r.is_complex
                except Exception as ex:
                    skipped.append(repr(ex)[:60])
                    continue
                n += 1
                if not (t.is_same(tr) if hasattr(t, "is_same") else t == tr) or bool(e.is_complex) != bool(r.is_complex):
                    bad.append((tname, str(e).replace("\n", " ")[:80], str(t), str(tr)))
    # heterogeneously typed binary nodes: the reference operand chosen by normalize_like must still have the node's type
    bad_mixed, nm = [], 0
    with warnings.catch_warnings():
        warnings.simplefilter("ignore")
        for ta, tb in (("float32", "float64"), ("float64", "float32"), ("float16", "float32"), ("float32", "complex64"), ("complex64", "float32"), ("float32", "complex128"), ("complex64", "complex128"), ("complex128", "complex64"), ("float64", "complex64")):
            for kind in ("add", "subtract", "multiply", "divide", "maximum", "minimum", "atan2", "hypot"):
                if kind in ("maximum", "minimum", "atan2", "hypot") and (ta.startswith("complex") or tb.startswith("complex")):
                    continue
                ctx = fa.Context(paths=[])
                x, y = ctx.symbol("x", ta), ctx.symbol("y", tb)
                try:
                    e = E.Expr(ctx, kind, (x, y))
                    t = e.get_type()
                    r = E.normalize_like(e)
                    tr = r.get_type()
                except Exception as ex:
                    skipped.append(repr(ex)[:60])
                    continue
                nm += 1
                if not (t.is_same(tr) if hasattr(t, "is_same") else t == tr):
                    bad_mixed.append((kind, ta, tb, str(t), str(tr)))
        # select / real / imag over components of different widths
        for ta, tb in (("float32", "float64"), ("float64", "float32"), ("float16", "float64")):
            ctx = fa.Context(paths=[])
            x, y, c = ctx.symbol("x", ta), ctx.symbol("y", tb), ctx.symbol("c", "boolean")
            for label, mk in (("select", lambda: E.Expr(ctx, "select", (c, x, y))), ("real(complex)", lambda: E.Expr(ctx, "real", (E.Expr(ctx, "complex", (x, y)),))), ("imag(complex)", lambda: E.Expr(ctx, "imag", (E.Expr(ctx, "complex", (x, y)),)))):
                try:
                    e = mk()
                    t = e.get_type()
                    r = E.normalize_like(e)
                    tr = r.get_type()
                except Exception as ex:
                    skipped.append(repr(ex)[:60])
                    continue
                nm += 1
                if not (t.is_same(tr) if hasattr(t, "is_same") else t == tr):
                    bad_mixed.append((label, ta, tb, str(t), str(tr)))
    rep.add(core.decided("C07/O5/normalize-like-preserves-type/mixed-operand-types", PROP, not bad_mixed, functions=fn, text="%d binary nodes over operands of different types: the reference operand chosen by normalize_like has the node's type (a constant like such a node keeps its reference type)" % nm, detail=dict(bad=bad_mixed[:8], n=nm), meta=dict(clause="O5-mixed", bad=bad_mixed[:8])))
    rep.add(core.decided("C07/O5/normalize-like-preserves-type", PROP, not bad, functions=fn, text="%d homogeneously typed expressions (every kind over float32/64, complex64/128 leaves, two levels): normalize_like keeps get_type and is_complex" % n, detail=dict(bad=bad[:8], n=n), meta=dict(clause="O5", bad=bad[:8])))


# --------------------------------------------------------------------------------------------- O6 concrete cases
def obligations_concrete(rep):
    """the real hash-consing on concrete expressions: structurally different expressions are different objects, structurally
    identical ones the same object - cases the symbolic key obligations abstract from (repeated operand objects, reference
    types given as type objects of different widths, parents of lists that differ in repetition or length)"""
    import warnings

    import functional_algorithms as fa

    bad, n = [], 0
    with warnings.catch_warnings():
        warnings.simplefilter("ignore")
        ctx = fa.Context(paths=[])
        x, y, z = ctx.symbol("x", "float64"), ctx.symbol("y", "float64"), ctx.symbol("z", "float64")
        lists = {"[x,x,y]": [x, x, y], "[x,y,y]": [x, y, y], "[x,y]": [x, y], "[x,y,x]": [x, y, x], "[y,x]": [y, x], "[x,y,z]": [x, y, z], "[x,y,z,x]": [x, y, z, x], "[x,y,z,y]": [x, y, z, y]}
        objs = {k: ctx.list(v) for k, v in lists.items()}
        for a, b in itertools.combinations(sorted(objs), 2):
            n += 1
            if objs[a] is objs[b]:
                bad.append("list%s is list%s" % (a, b))
            for what, mk in (("item1", lambda L: ctx.item(L, 1)), ("len", lambda L: ctx.len(L)), ("item0", lambda L: ctx.item(L, 0))):
                n += 1
                pa, pb = mk(objs[a]), mk(objs[b])
                if pa is pb:
                    bad.append("%s(list%s) is %s(list%s)" % (what, a, what, b))
        for k, v in lists.items():
            n += 1
            if ctx.list(list(v)) is not objs[k]:
                bad.append("list%s built twice gives two objects" % k)
        # operators with repeated operands
        for kind in ("add", "maximum", "atan2", "hypot"):
            f = (lambda p, q: p + q) if kind == "add" else getattr(ctx, kind)
            n += 3
            if f(x, x) is f(x, y) or f(x, y) is f(y, y) or f(x, y) is f(y, x) and kind in ("atan2",):
                bad.append("%s with a repeated operand aliases another node" % kind)
            if f(x, y) is not f(x, y):
                bad.append("%s(x, y) built twice gives two objects" % kind)
        # reference types given as type objects / names of different widths
        for ta, tb in ((numpy.float32, numpy.float64), ("float32", "float64"), ("complex64", "complex128"), (numpy.float16, numpy.float32)):
            n += 1
            c1, c2 = ctx.constant(0.1, ta), ctx.constant(0.1, tb)
            if c1 is c2 or str(c1.get_type()) == str(c2.get_type()):
                bad.append("constant(0.1, %r) and constant(0.1, %r) are not distinguished (types %s, %s)" % (ta, tb, c1.get_type(), c2.get_type()))
            if ctx.constant(0.1, ta) is not c1:
                bad.append("constant(0.1, %r) built twice gives two objects" % (ta,))
    rep.add(core.decided("C07/O6/concrete-sharing", PROP, not bad, functions=("expr.Expr.__new__", "context.Context.constant", "expr.Expr._two_level_intkey"), text="%d concrete pairs built through the real API: different structure => different objects, same structure => same object" % n, detail=dict(bad=bad[:8]), meta=dict(clause="O6", bad=bad[:8])))


# --------------------------------------------------------------------------------------------- replay / main
def native_replay(o):
    import functional_algorithms as fa

    meta = o.meta or {}
    m = o.model or {}
    info = dict(witness_class=None)
    if meta.get("clause") in ("no-false-sharing", "identical-values-share") and "a" in m and "b" in m and m["a"].get("bits") is not None:
        cls = dict(float=float, float16=numpy.float16, float32=numpy.float32, float64=numpy.float64, longdouble=numpy.longdouble)[meta["cls"]]
        n = m["a"]["eb"] + m["a"]["sb"]

        def mk(bits):
            if cls is numpy.longdouble:
                # SMT-LIB (15, 64): sign | 15-bit exponent | 63-bit fraction (hidden bit), 79 bits
                sgn, ex, fr = bits >> 78, (bits >> 63) & 0x7FFF, bits & ((1 << 63) - 1)
                if ex == 0x7FFF:
                    v = numpy.longdouble("nan") if fr else numpy.longdouble("inf")
                elif ex == 0:
                    v = numpy.ldexp(numpy.longdouble(fr), -16382 - 63)
                else:
                    v = numpy.ldexp(numpy.longdouble((1 << 63) | fr), ex - 16383 - 63)
                return -v if sgn else v
            ut = {16: numpy.uint16, 32: numpy.uint32, 64: numpy.uint64}[n]
            ft = {16: numpy.float16, 32: numpy.float32, 64: numpy.float64}[n]
            v = ut(bits).view(ft)
            return float(v) if cls is float else v

        a, b = mk(m["a"]["bits"]), mk(m["b"]["bits"])
        ctx = fa.Context(paths=[])
        x = ctx.symbol("x", "float64")
        ca, cb = ctx.constant(a, x), ctx.constant(b, x)
        same_obj = ca is cb
        same_val = (numpy.isnan(a) and numpy.isnan(b)) or (a == b and numpy.signbit(a) == numpy.signbit(b))
        info.update(a=repr(a), b=repr(b), same_object=same_obj, identical_value=bool(same_val))
        info["replayed"] = bool(same_obj != same_val)
        if numpy.isnan(a) and numpy.isnan(b):
            info["witness_class"] = "%s: NaN payloads are never shared" % meta["cls"]
        elif a == 0 and b == 0:
            info["witness_class"] = "%s: +0.0 and -0.0 share one constant" % meta["cls"]
        else:
            info["witness_class"] = "%s: %r vs %r" % (meta["cls"], a, b)
        return info
    if meta.get("clause") in ("literals", "O5") and meta.get("bad"):
        info.update(replayed=True, bad=meta["bad"], witness_class="%s %s" % (meta["clause"], meta["bad"][0]))
        return info
    info["replayed"] = False
    return info


def build(tier):
    rep = core.Report(PROP, tier)
    rep.trust("z3 5.1 (FP, Int, uninterpreted sorts)", "Python dict semantics: lookup succeeds iff hashes are equal and (identity or ==) holds component-wise for tuples", "CPython executing the real key functions on abstract objects assembled from the real function objects")
    rep.assume(
        "WF(ctx) as induction hypothesis: intkeys of registered expressions are pairwise distinct and below the counter; preserved by _register_expression (O3)",
        "Python/NumPy `==` on floats is IEEE equality (0.0 == -0.0, NaN != NaN); payloads of two constructions are different objects (no identity shortcut)",
        "str()/repr() of a float is injective on non-NaN values of one class and maps every NaN to 'nan' (only used if the key contains such a string)",
        "hash-equality follows from == for the builtin/NumPy numeric types",
        "alternative (compile-time constant) contexts and complex payload classes are covered by the literal cases only",
    )
    rep.extraction_drops.append("Expr.__new__'s operand normalisation (normalize, context.alt constant folding) is not under contract here; the key functions, registration, Type.__new__ and normalize_like are")
    for f, c in (("expr.Expr._two_level_intkey", "injective on registered operands"), ("expr.Expr._compute_serialized", "key equality <=> structural identity"), ("context.Context._register_expression", "lookup-or-register, frame, fresh id"), ("typesystem.Type.__new__", "singleton per (kind, param)"), ("expr.normalize_like", "reference type preserved")):
        rep.under_contract(f, c)
    for f in (obligations_O1, obligations_O2, obligations_O3, obligations_O4, obligations_O5, obligations_concrete):
        try:
            f(rep)
        except symrun.Unsupported as u:
            rep.add(core.decided("C07/%s/engine" % f.__name__, PROP, None, text="outside the subset: %s" % u))
    # canary
    a, b = z3.FP("a", z3.FPSort(8, 24)), z3.FP("b", z3.FPSort(8, 24))
    s = z3.Solver()
    s.add(z3.fpEQ(a, b), z3.fpToIEEEBV(a) != z3.fpToIEEEBV(b))
    rep.add(core.smt("C07/canary/ieee-equality-is-not-identity", PROP, s, text="canary: IEEE == identifies values with different bit patterns", expect="sat", kind="canary", budget_s=10))
    rep.replayers["C07/"] = native_replay
    return rep


def main(tier, only=None):
    rep = build(tier)
    if only:
        rep.obls = [o for o in rep.obls if only in o.id]
    return rep.finish()


def replay(path):
    d = json.load(open(path))
    o = core.Obligation(id=d["obligation"], prop=PROP, model=d.get("model"), meta=d.get("meta") or {})
    info = native_replay(o)
    print(json.dumps(info, indent=1, default=str))
    return 1 if info.get("replayed") else 0
