"""C10 - error-free transformations are exact (E1, vf/symfp.py).

Per function / option set / format / path:
  * every logged arithmetic operation gets an exactness query (rounding-mode agreement, bit-precise);
  * the postcondition taken from the statement - s + t = x + y, xh + xl = x, h + l = x*y - is an identity of exact
    arithmetic over the operations proved exact (all others are arbitrary values), decided by canonical forms;
  * s = RN(x + y) / h = RN(x * y) is structural (the returned high part IS the rounded operation on the inputs);
  * the halves of the splitter fit in half the significand (trailing zero bits of the pattern).
Precondition = the documented domain: finite inputs, no overflow in any intermediate operation, |x| >= |y| for
Fast2Sum, and for products the error term x*y - RN(x*y) representable (fma exact).
"""
from __future__ import annotations

import json
import time
import traceback
from fractions import Fraction

import numpy
import z3

from vf import core, ring, symfp, symrun
from vf.symrun import FMT, UINT, SymFP, explore
from vf.symfp import exact_formula, finite, to_ring

PROP = "C10"
T16, T32, T64 = numpy.float16, numpy.float32, numpy.float64


def S(t):
    return z3.FPSort(*FMT[t])


def fits_bits(v, k, t):
    """the float v (zero or normal) has at most k significant bits: the low p-k bits of the fraction field are zero"""
    eb, sb = FMT[t]
    bits = z3.fpToIEEEBV(v)
    low = sb - k  # fraction has sb-1 bits; significand 1.f has sb bits
    if low <= 0:
        return z3.BoolVal(True)
    return z3.Or(z3.fpIsZero(v), z3.And(z3.fpIsNormal(v), z3.Extract(low - 1, 0, bits) == 0))


# --------------------------------------------------------------------------------------------- cases
def cases(tier):
    import functional_algorithms.algorithms as A
    import functional_algorithms.apmath as AP
    import functional_algorithms.floating_point_algorithms as F
    import functional_algorithms.utils as U

    Ug = symrun.reglobal(U)
    out = []
    prod_post = lambda x, y, r: (r[0] + r[1], x * y)  # noqa

    def add(name, fn, nin, post, t, claimed, extra_pre=None, high=None, widths=None, budget=None, ctxkind="numpy"):
        if post is prod_post:
            # two-operand Dekker products: each operation is a 2-variable bit-blasted query that runs into the budget even at
            # float16 (measured 600 s time-outs): generated in the thorough tier only, attempted, never claimed
            # (float16 only: building the queries for float32/float64 alone took the thorough run beyond half an hour of
            # single-threaded path exploration, for obligations that are never claimed)
            if tier != "thorough" or t is not T16:
                return
            claimed, budget = False, 300
        out.append(dict(name=name, fn=fn, nin=nin, post=post, t=t, claimed=claimed, extra_pre=extra_pre, high=high, widths=widths, budget=budget, ctxkind=ctxkind))

    sum_post = lambda x, y, r: (r[0] + r[1], x + y)  # noqa
    split_post = lambda x, r: (r[0] + r[1], x)  # noqa
    sq_post = lambda x, r: (r[0] + r[1], x * x)  # noqa
    dbl_post = lambda x, r: (r[0] + r[1], x + x)  # noqa
    ge_abs = lambda x, y: z3.fpGEQ(z3.fpAbs(x), z3.fpAbs(y))  # noqa

    def fma_exact(x, y):
        h = z3.fpMul(z3.RNE(), x, y)
        return z3.fpEQ(z3.fpFMA(z3.RTP(), x, y, z3.fpNeg(h)), z3.fpFMA(z3.RTN(), x, y, z3.fpNeg(h)))

    fmts = [(T16, True), (T32, True)] + ([(T64, False)] if tier == "thorough" else [])
    for t, cl in fmts:
        p = FMT[t][1]
        hi_bits, lo_bits = (p + 1) // 2, (p + 1) // 2
        heavy = t is not T16  # what has no head-room at this format is attempted, not claimed
        for fast in (False, True):
            for fix in (False, True):
                add("floating_point_algorithms.add_2sum[fast=%s,fix_overflow=%s]" % (fast, fix), lambda ctx, x, y, fast=fast, fix=fix: F.add_2sum(ctx, x, y, fast=fast, fix_overflow=fix), 2, sum_post, t, cl and (fast or not heavy), extra_pre=ge_abs if fast else None, high="fpAdd")
        for scale in (False, True):
            add("floating_point_algorithms.split_veltkamp[scale=%s]" % scale, lambda ctx, x, scale=scale: F.split_veltkamp(ctx, x, scale=scale), 1, split_post, t, cl, widths=(hi_bits, lo_bits))
        for scale in (False, True):
            add("floating_point_algorithms.mul_dekker[scale=%s]" % scale, lambda ctx, x, y, scale=scale: F.mul_dekker(ctx, x, y, scale=scale), 2, prod_post, t, cl and not heavy, extra_pre=fma_exact, high="fpMul", budget=600)
        add("utils.add_2sum", lambda ctx, x, y: Ug["add_2sum"](x, y), 2, sum_post, t, cl and not heavy, high="fpAdd")
        add("utils.add_fast2sum", lambda ctx, x, y: Ug["add_fast2sum"](x, y), 2, sum_post, t, cl, extra_pre=ge_abs, high="fpAdd")
        add("utils.double_2sum", lambda ctx, x: Ug["double_2sum"](x), 1, dbl_post, t, cl, high="fpAdd")
        add("utils.double_fast2sum", lambda ctx, x: Ug["double_fast2sum"](x), 1, dbl_post, t, cl, high="fpAdd")
        add("utils.split_veltkamp", lambda ctx, x: Ug["split_veltkamp"](x), 1, split_post, t, cl, widths=(hi_bits, lo_bits))
        add("utils.multiply_dekker", lambda ctx, x, y: Ug["multiply_dekker"](x, y), 2, prod_post, t, cl and not heavy, extra_pre=fma_exact, high="fpMul", budget=600)
        add("utils.square_dekker", lambda ctx, x: Ug["square_dekker"](x), 1, sq_post, t, cl and not heavy, extra_pre=lambda x: fma_exact(x, x), high="fpMul", budget=600)
        # the copies used inside complex log / log1p (algorithms.py): splitter constant selected from `largest`
        def alg_split(ctx, x, t=t):
            C = A.get_veltkamp_splitter_constant(ctx, ctx.constant(numpy.finfo(t).max, x))
            return A.split_veltkamp(ctx, C, x)

        def alg_square(ctx, x, t=t):
            C = A.get_veltkamp_splitter_constant(ctx, ctx.constant(numpy.finfo(t).max, x))
            xh, xl = A.split_veltkamp(ctx, C, x)
            return A.square_dekker(ctx, x, xh, xl)

        add("algorithms.split_veltkamp+get_veltkamp_splitter_constant", alg_split, 1, split_post, t, cl, widths=(hi_bits, lo_bits), ctxkind="wrap")
        add("algorithms.square_dekker", alg_square, 1, sq_post, t, cl and not heavy, extra_pre=lambda x: fma_exact(x, x), high="fpMul", budget=600, ctxkind="wrap")
        add("algorithms.add_2sum[fast=False]", lambda ctx, x, y: A.add_2sum(x, y, fast=False), 2, sum_post, t, cl and not heavy, high="fpAdd", ctxkind="wrap")
        add("algorithms.add_2sum[fast=True]", lambda ctx, x, y: A.add_2sum(x, y, fast=True), 2, sum_post, t, cl, extra_pre=ge_abs, high="fpAdd", ctxkind="wrap")
        # apmath wrappers
        add("apmath.split", lambda ctx, x: AP.split(ctx, x), 1, split_post, t, cl, widths=(hi_bits, lo_bits))
        add("apmath.two_sum", lambda ctx, x, y: AP.two_sum(ctx, x, y), 2, sum_post, t, cl and not heavy, high="fpAdd")
        add("apmath.quick_two_sum", lambda ctx, x, y: AP.quick_two_sum(ctx, x, y), 2, sum_post, t, cl, extra_pre=ge_abs, high="fpAdd")
        add("apmath.two_prod", lambda ctx, x, y: AP.two_prod(ctx, x, y), 2, prod_post, t, cl and not heavy, extra_pre=fma_exact, high="fpMul", budget=600)
    return out


# --------------------------------------------------------------------------------------------- one case
def explore_case(c):
    t = c["t"]
    SymCtx = symfp.sym_ctx_class()
    names = ["x", "y"][: c["nin"]]
    vars_ = [z3.FP(n, S(t)) for n in names]

    def run(e):
        for v in vars_:
            e.assume(finite(v))
        if c["extra_pre"] is not None:
            e.assume(c["extra_pre"](*vars_))
        ctx = SymCtx(t, wrap_constants=(c["ctxkind"] == "wrap"))
        return c["fn"](ctx, *[SymFP(v, t) for v in vars_])

    import warnings

    with warnings.catch_warnings():
        warnings.simplefilter("ignore")
        paths = explore(run, int_width=64, oplog=True)
    return vars_, paths


def case_id(c):
    return "C10/%s/%s" % (c["name"], c["t"].__name__)


def phase1(c):
    """exactness queries of every logged operation on every path"""
    vars_, paths = explore_case(c)
    obls = []
    info = []
    for p in paths:
        base = "%s/path=%s" % (case_id(c), p.sig())
        if p.exc is not None:
            info.append(dict(path=p, base=base, ops=[], exc=p.exc))
            continue
        nofl = [finite(op[3]) for op in p.oplog]  # documented domain: no overflow in any intermediate operation
        ops = []
        for i, (name, a, b, r, tt) in enumerate(p.oplog):
            s = z3.Solver()
            for f in p.pre + p.pc + nofl:
                s.add(f)
            s.add(z3.Not(exact_formula(name, a, b)))
            o = core.smt("%s/op%02d-%s-exact" % (base, i, name[2:].lower()), PROP, s, functions=(c["name"].split("[")[0],), text="operation %d (%s) commits no rounding error on the domain" % (i, name), claimed=False, budget_s=(c["budget"] or 300) if c["claimed"] else 40, kind="lemma", meta=dict(case=c["name"], t=c["t"].__name__, besteffort=not c["claimed"]))
            obls.append(o)
            ops.append((o, r))
        info.append(dict(path=p, base=base, ops=ops, nofl=nofl, exc=None))
    return vars_, info, obls


covers = {}


def phase2(rep, c, vars_, info):
    fn = (c["name"].split("[")[0],)
    t = c["t"]
    meta0 = dict(case=c["name"], t=t.__name__, besteffort=not c["claimed"])
    if not info:
        rep.add(core.decided(case_id(c) + "/paths", PROP, False, functions=fn, text="no feasible path", claimed=c["claimed"]))
    for it in info:
        p, base = it["path"], it["base"]
        if it["exc"] is not None:
            rep.add(core.decided(base + "/no-exception", PROP, False, functions=fn, text="raised %r" % (it["exc"],), claimed=c["claimed"], meta=meta0))
            continue
        res = p.result
        if not (isinstance(res, tuple) and len(res) == 2):
            rep.add(core.decided(base + "/returns-pair", PROP, False, functions=fn, text="returned %r" % (type(res),), claimed=c["claimed"], meta=meta0))
            continue
        exact_ids = {r.get_id() for o, r in it["ops"] if o.verdict == core.DISCHARGED}
        undecided = [o.id for o, r in it["ops"] if o.verdict not in (core.DISCHARGED, core.REFUTED)]
        inexact_models = [o.model for o, r in it["ops"] if o.verdict == core.REFUTED and o.model]
        names = {v.decl().name() for v in vars_}
        try:
            hi, lo = [x.e if isinstance(x, SymFP) else symrun.fpval(x, FMT[t]) for x in res]
            gens = {}
            rv = [to_ring(hi, exact_ids, names, gens), to_ring(lo, exact_ids, names, gens)]
            ins = [ring.V(v.decl().name()) for v in vars_]
            lhs, rhs = c["post"](*ins, rv)
            ok = ring.Rat.coerce(lhs).same(ring.Rat.coerce(rhs))
        except symrun.Unsupported as u:
            rep.add(core.decided(base + "/exact-identity", PROP, None, functions=fn, text="outside the subset: %s" % u, claimed=False, meta=meta0))
            continue
        verdict = True if ok else (None if undecided else False)
        rep.add(core.decided(base + "/exact-identity", PROP, verdict, functions=fn, text="postcondition as an identity of exact arithmetic over the %d operations proved exact (of %d logged; %d undecided)" % (len(exact_ids), len(it["ops"]), len(undecided)), detail=dict(exact=[o.id.rsplit("/", 1)[1] for o, r in it["ops"] if o.verdict == core.DISCHARGED], inexact=[o.id.rsplit("/", 1)[1] for o, r in it["ops"] if o.verdict == core.REFUTED], undecided=undecided[:6]), claimed=c["claimed"], meta=dict(meta0, models=inexact_models[:12])))
        if c["high"]:
            f = symfp.OPS[c["high"]]
            want = f(z3.RNE(), vars_[0], vars_[1] if len(vars_) > 1 else vars_[0])
            # on a fix_overflow path the high part may be the same rounded operation re-computed: compare by structure
            rep.add(core.decided(base + "/high-part-is-RN", PROP, bool(hi.eq(want)), functions=fn, text="the high part is %s(RNE, inputs): s = RN(x+y) / h = RN(x*y)" % c["high"], claimed=c["claimed"], meta=meta0))
        if c["widths"]:
            kh, kl = c["widths"]
            s = z3.Solver()
            for f in p.pre + p.pc + it["nofl"]:
                s.add(f)
            # the width clause is stated for halves that are zero or normal (a subnormal half has fewer bits anyway)
            s.add(z3.Or(z3.fpIsZero(lo), z3.fpIsNormal(lo)), z3.Or(z3.fpIsZero(hi), z3.fpIsNormal(hi)))
            s.add(z3.Not(z3.And(fits_bits(hi, kh, t), fits_bits(lo, kl, t))))
            rep.add(core.smt(base + "/halves-fit", PROP, s, functions=fn, text="xh has at most %d and xl at most %d significant bits" % (kh, kl), claimed=c["claimed"], budget_s=c["budget"] or 120, meta=meta0))
        # cover: the path's domain is inhabited
        s = z3.Solver()
        for f in p.pre + p.pc + it["nofl"]:
            s.add(f)
        covers.setdefault(case_id(c), []).append(core.smt(base + "/cover", PROP, s, functions=fn, text="cover: the domain of this path is inhabited", expect="sat", kind="cover", claimed=False, budget_s=c["budget"] or 120, meta=dict(besteffort=not c["claimed"])))


# --------------------------------------------------------------------------------------------- replay
def native(case_name, t, x, y=None):
    """the real function on NumPy scalars, exact bookkeeping with Fractions"""
    import warnings

    import functional_algorithms.algorithms as A
    import functional_algorithms.apmath as AP
    import functional_algorithms.floating_point_algorithms as F
    import functional_algorithms.utils as U

    ctx = U.NumpyContext(default_constant_type=t)
    name = case_name
    opts = {}
    if "[" in name:
        name, o = name[:-1].split("[")
        for kv in o.split(","):
            k, v = kv.split("=")
            opts[k] = v == "True"
    with warnings.catch_warnings(), numpy.errstate(all="ignore"):
        warnings.simplefilter("ignore")
        if name == "floating_point_algorithms.add_2sum":
            return F.add_2sum(ctx, x, y, **opts), "sum"
        if name == "floating_point_algorithms.split_veltkamp":
            return F.split_veltkamp(ctx, x, **opts), "split"
        if name == "floating_point_algorithms.mul_dekker":
            return F.mul_dekker(ctx, x, y, **opts), "prod"
        if name.startswith("utils."):
            f = getattr(U, name.split(".")[1])
            kind = {"add_2sum": "sum", "add_fast2sum": "sum", "double_2sum": "dbl", "double_fast2sum": "dbl", "split_veltkamp": "split", "multiply_dekker": "prod", "square_dekker": "sq"}[name.split(".")[1]]
            return (f(x, y) if y is not None and kind in ("sum", "prod") else f(x)), kind
        if name == "apmath.split":
            return AP.split(ctx, x), "split"
        if name == "apmath.two_sum":
            return AP.two_sum(ctx, x, y), "sum"
        if name == "apmath.quick_two_sum":
            return AP.quick_two_sum(ctx, x, y), "sum"
        if name == "apmath.two_prod":
            return AP.two_prod(ctx, x, y), "prod"
        if name.startswith("algorithms."):
            import functional_algorithms as fa
            from functional_algorithms import targets

            which = name.split(".")[1]

            def prog(ctx, x, y=None):
                if which.startswith("split"):
                    C = A.get_veltkamp_splitter_constant(ctx, ctx.constant("largest", x))
                    r = A.split_veltkamp(ctx, C, x)
                elif which.startswith("square"):
                    C = A.get_veltkamp_splitter_constant(ctx, ctx.constant("largest", x))
                    xh, xl = A.split_veltkamp(ctx, C, x)
                    r = A.square_dekker(ctx, x, xh, xl)
                else:
                    r = A.add_2sum(x, y, fast=opts.get("fast", False))
                return ctx.list(list(r)) if hasattr(ctx, "list") else r

            c2 = fa.Context(paths=[A])
            if which.startswith("add"):
                def f2(ctx, x: float, y: float):
                    return prog(ctx, x, y)
                g = c2.trace(f2, t, t)
            else:
                def f1(ctx, x: float):
                    return prog(ctx, x)
                g = c2.trace(f1, t)
            fun = targets.numpy.as_function(g.rewrite(targets.numpy), debug=0)
            r = fun(x, y) if which.startswith("add") else fun(x)
            return tuple(r), ("sum" if which.startswith("add") else ("sq" if which.startswith("square") else "split"))
    raise KeyError(case_name)


def native_replay(o):
    meta = o.meta or {}
    t = dict(float16=T16, float32=T32, float64=T64).get(meta.get("t"))
    models = list(meta.get("models") or [])
    if o.model:
        models.insert(0, o.model)
    info = dict(witness_class="%s %s" % (meta.get("case"), meta.get("t")), replayed=False, tried=0)
    for m in models:
        try:
            x = UINT[t](m["x"]["bits"]).view(t)
            y = UINT[t](m["y"]["bits"]).view(t) if "y" in m else None
        except Exception:
            continue
        info["tried"] += 1
        try:
            (hi, lo), kind = native(meta["case"], t, x, y)
        except Exception:
            info["replay_error"] = traceback.format_exc()[-600:]
            continue
        fr = lambda v: Fraction(float(v)) if numpy.isfinite(v) else None  # noqa
        if None in (fr(hi), fr(lo)):
            continue
        want = dict(sum=lambda: fr(x) + fr(y), prod=lambda: fr(x) * fr(y), split=lambda: fr(x), sq=lambda: fr(x) * fr(x), dbl=lambda: 2 * fr(x))[kind]()
        if "halves-fit" in o.id:
            def nbits(v):
                f = Fraction(float(v))
                if f == 0:
                    return 0
                n = abs(f.numerator)
                while n % 2 == 0:
                    n //= 2
                return n.bit_length()
            p = FMT[t][1]
            bad = nbits(hi) > (p + 1) // 2 or nbits(lo) > (p + 1) // 2
        else:
            bad = fr(hi) + fr(lo) != want
        if bad:
            info.update(replayed=True, x=repr(x), y=repr(y), high=repr(hi), low=repr(lo), exact_high_plus_low=str(fr(hi) + fr(lo)), wanted=str(want))
            return info
    return info


# --------------------------------------------------------------------------------------------- main
def build(tier, only=None):
    rep = core.Report(PROP, tier)
    rep.trust("z3 5.1 QF_FP bit-blasting (cvc5 1.0.3 fallback)", "vf/ring.py canonical forms for the exact identity", "NumPy scalar arithmetic = SMT-LIB FP with roundNearestTiesToEven (cross-checked under C14)")
    rep.assume(
        "exactness of one operation == round-toward-positive and round-toward-negative results agree (fp.eq): true iff the real result is representable; an overflowing or NaN result counts as inexact",
        "documented domain as precondition: finite inputs; every intermediate operation finite (no overflow); |x| >= |y| for Fast2Sum variants; for products the error term x*y - RN(x*y) is representable (fma(x, y, -h) exact)",
        "width clause stated for halves that are zero or normal",
        "select forks the path (both branches verified under their conditions); Expr.reference(...) is a naming hint (dropped)",
        "the algorithms.py copies are run with the splitter constant selected by the real get_veltkamp_splitter_constant from the format's largest value",
        "float32: the last addition of 2Sum and the Dekker products have no solver head-room: generated and attempted with a budget, not claimed; two-operand Dekker products: float16, thorough tier only, not claimed; float64 only in the thorough tier, not claimed",
    )
    rep.extraction_drops.append("the make_api dispatch wrapper runs for real on a NumpyContext subclass; mp_ctx (multiprecision override) paths are not taken")
    cs = cases(tier)
    if only:
        cs = [c for c in cs if only in case_id(c)]
    all_info = []
    lemmas = []
    t0 = time.time()
    for c in cs:
        rep.under_contract(c["name"].split("[")[0], ["postcondition as exact identity", "high part = RN(op)", "halves fit (splitters)"])
        try:
            vars_, info, obls = phase1(c)
        except symrun.Unsupported as u:
            rep.add(core.decided(case_id(c) + "/engine", PROP, None, functions=(c["name"].split("[")[0],), text="outside the subset: %s" % u, claimed=c["claimed"]))
            continue
        except Exception:
            rep.add(core.decided(case_id(c) + "/engine", PROP, core.ERROR, functions=(c["name"].split("[")[0],), text=traceback.format_exc()[-1200:]))
            continue
        all_info.append((c, vars_, info))
        lemmas.extend(obls)
    core.solve_all(lemmas)
    rep.add(*lemmas)
    for c, vars_, info in all_info:
        phase2(rep, c, vars_, info)
    # vacuity: at least one path of every case must be inhabited under the documented domain (overflow-handling paths
    # are legitimately empty there)
    allc = [o for v in covers.values() for o in v]
    core.solve_all(allc)
    rep.add(*allc)
    for c, vars_, info in all_info:
        cv = covers.get(case_id(c), [])
        rep.add(core.decided(case_id(c) + "/some-path-inhabited", PROP, any(o.verdict == core.DISCHARGED for o in cv), functions=(c["name"].split("[")[0],), text="at least one path of the function is reachable inside the documented domain (%d of %d)" % (len([o for o in cv if o.verdict == core.DISCHARGED]), len(cv)), kind="cover" if False else "vc", claimed=c["claimed"]))
    # canary: a wrong 2Sum (z = x - s) must fail the identity
    x, y = ring.V("x"), ring.V("y")
    s_ = ring.V("r0")
    z_ = s_ - x
    t_ = (x - (s_ - z_)) - (y - z_)
    rep.add(core.decided("C10/canary/t=u-v", PROP, not ring.Rat.coerce(s_ + t_).same(x + y), text="canary: 2Sum with t = u - v does not satisfy s + t = x + y", kind="canary"))
    rep.replayers["C10/"] = native_replay
    # bounded stand-in: every case incl. float64 and the Dekker products, natively (never counted as proved)
    if only is None or "bounded" in only:
        from vf.contracts import C10_bounded

        C10_bounded.run(rep, tier)
        rep.replayers["C10/bounded"] = C10_bounded.replay
    return rep


def main(tier, only=None):
    rep = build(tier, only)
    return rep.finish()


def replay(path):
    d = json.load(open(path))
    o = core.Obligation(id=d["obligation"], prop=PROP, model=d.get("model"), meta=d.get("meta") or {})
    if (o.meta or {}).get("part") == "bounded":
        print(json.dumps(o.meta.get("fails"), indent=1, default=str))
        return 1 if o.meta.get("fails") else 0
    info = native_replay(o)
    print(json.dumps(info, indent=1, default=str))
    return 1 if info.get("replayed") else 0
