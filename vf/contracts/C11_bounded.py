"""C11, BOUNDED STAND-IN (never counted as proved) for the compound members of the statement: 3Sum, 4Sum, mul_add, dot2 and
the emulated fma variants.  Their ULP bounds are against the correctly rounded EXACT result over chains of two-sums and
Dekker products; monolithic bit-blasting of even one exact two-sum does not finish at float16 (measured), and no
per-operation decomposition with the needed relational invariants was built.  The real functions are therefore executed
natively on directed operand tuples (binade edges, few-bit significands that produce ties, near-cancellation, the
overflow and underflow margins, seeded pseudo-random), and compared with an exact rational reference rounded once.
"""
from __future__ import annotations

import multiprocessing as mp
import warnings
from fractions import Fraction

import numpy

from vf import core

TYPES = ("float16", "float32", "float64")
ITYPE = {"float16": numpy.int16, "float32": numpy.int32, "float64": numpy.int64}
FMA_VARIANTS = [(alg, fo, pz) for alg in ("a7", "a8", "a9", "apmath") for fo in (True, False) for pz in (True, False)]


def F(x):
    return Fraction(float(x))


def rn(dtype, fr):
    """correctly rounded (nearest, ties to even) value of the Fraction in dtype; overflow gives +-inf"""
    fi = numpy.finfo(dtype)
    p = fi.nmant + 1
    emin, emax = int(fi.minexp), int(fi.maxexp) - 1
    if fr == 0:
        return dtype(0)
    a = abs(fr)
    e = a.numerator.bit_length() - a.denominator.bit_length()
    if Fraction(2) ** e > a:
        e -= 1
    e = max(e, emin)
    q = Fraction(2) ** (e - p + 1)
    n = round(a / q)  # Fraction.__round__: ties to even
    v = n * q
    if v >= Fraction(2) ** (emax + 1):
        r = dtype(numpy.inf)
    else:
        r = numpy.ldexp(dtype(n), e - p + 1)  # n <= 2**p: exact in dtype; the product is representable
    return -r if fr < 0 else r


def rank(v, it):
    i = int(abs(v).view(it))
    return -i if v < 0 else i


def ulpdiff(a, b, it):
    if not (numpy.isfinite(a) and numpy.isfinite(b)):
        return 0 if (a == b) else 10**9
    return abs(rank(a, it) - rank(b, it))


def operands(dtype, rng, n):
    """directed scalar operands of dtype (finite)"""
    fi = numpy.finfo(dtype)
    p = fi.nmant + 1
    out = []
    emin, emax = int(fi.minexp), int(fi.maxexp) - 1
    for _ in range(n):
        k = int(rng.integers(0, 8))
        e = int(rng.integers(emin - p + 1, emax + 1))
        if k == 0:  # power of two and its neighbours
            m = [1 << (p - 1), (1 << (p - 1)) + 1, (1 << p) - 1][int(rng.integers(0, 3))]
        elif k == 1:  # few significant bits (products land on ties)
            m = (1 << (p - 1)) | (1 << int(rng.integers(0, p - 1)))
        elif k == 2:  # 1.5, 1.25, 1.75 patterns
            m = [3 << (p - 2), 5 << (p - 3), 7 << (p - 3), (3 << (p - 2)) + 1, (3 << (p - 2)) - 1][int(rng.integers(0, 5))]
        elif k == 3:  # half-width significands (exact products)
            m = int(rng.integers(1 << (p // 2 - 1), 1 << (p // 2))) << (p - p // 2)
        elif k == 4:  # moderate exponents, random significand
            m = int(rng.integers(1 << (p - 1), 1 << p))
            e = int(rng.integers(-p, p))
        else:
            m = int(rng.integers(1 << (p - 1), 1 << p))
        with numpy.errstate(all="ignore"):
            v = numpy.ldexp(dtype(m), e - p + 1)
        if not numpy.isfinite(v):
            v = fi.max
        out.append(-v if rng.integers(0, 2) else v)
    return out


def clamp(v, lim, dtype):
    """scale v into (-lim, lim) by a power of two (keeps the significand)"""
    with numpy.errstate(all="ignore"):
        while numpy.isfinite(v) and abs(v) >= lim:
            v = v * dtype(0.25)
    return v


def job(arg):
    tn, op, seed, count = arg
    warnings.simplefilter("ignore")
    import functional_algorithms.apmath_algorithms as AA
    import functional_algorithms.floating_point_algorithms as FP
    import functional_algorithms.utils as U

    dtype = getattr(numpy, tn)
    it = ITYPE[tn]
    fi = numpy.finfo(dtype)
    p = fi.nmant + 1
    rng = numpy.random.default_rng(seed)
    ctx = U.NumpyContext(dtype)
    Q = dtype(1 << (p - 1))
    P = dtype((1 << (p - 1)) + 1)
    tot = dtype(1.5)
    C = U.get_veltkamp_splitter_constant(dtype)
    fails = {}  # region -> first failures
    counts = {}  # region -> inputs evaluated
    n = 0
    big = fi.max

    def record(region="all", **kw):
        lst = fails.setdefault(region, [])
        if len(lst) < 3:
            lst.append({k: (repr(v) if isinstance(v, numpy.floating) else v) for k, v in kw.items()})

    with numpy.errstate(all="ignore"):
        if op in ("add_3sum", "add_4sum", "add_4sum-pair-cancellation"):
            lim = big / dtype(4)
            k = 3 if op == "add_3sum" else 4
            eps = float(fi.eps)
            for _ in range(count):
                xs = [clamp(v, lim, dtype) for v in operands(dtype, rng, k)]
                mode = int(rng.integers(0, 4)) if op != "add_4sum-pair-cancellation" else int(rng.integers(5, 9))
                if mode == 5:  # z cancels the rounded sum of the first pair, w far below
                    xs[2] = clamp(-(xs[0] + xs[1]) * dtype(1 + int(rng.integers(-3, 4)) * eps), lim, dtype)
                    if xs[3] != 0:
                        xs[3] = clamp(xs[3] * numpy.ldexp(dtype(1), int(numpy.frexp(xs[0] + xs[1])[1]) - int(numpy.frexp(xs[3])[1]) - int(rng.integers(p - 3, p + 4))), lim, dtype)
                elif mode >= 6:  # the high words of the two pairs cancel, the low words (about an ulp of them) decide the result
                    e = int(numpy.frexp(xs[1])[1])
                    sc = int(rng.integers(p - 4, p + 3))
                    xs[0] = clamp(numpy.ldexp(dtype(rng.uniform(1, 2)) * dtype(1 if rng.integers(0, 2) else -1), e - sc), lim, dtype)
                    xs[2] = clamp(-xs[1] * dtype(1 + int(rng.integers(-4, 5)) * eps), lim, dtype)
                    xs[3] = clamp(numpy.ldexp(dtype(rng.uniform(1, 2)) * dtype(1 if rng.integers(0, 2) else -1), e - sc + int(rng.integers(-2, 3))), lim, dtype)
                if not all(numpy.isfinite(v) for v in xs):
                    continue
                if mode == 0:  # near-cancellation of the two largest
                    xs[1] = -xs[0] * dtype(1 + int(rng.integers(-2, 3)) * float(fi.eps))
                    xs[1] = clamp(xs[1], lim, dtype)
                elif mode == 1:  # a tie: third operand is half an ulp of the first
                    xs[2] = numpy.ldexp(dtype(1), int(numpy.frexp(xs[0])[1]) - p - 1) * dtype(1 if rng.integers(0, 2) else -1)
                exact = sum((F(v) for v in xs), Fraction(0))
                want = rn(dtype, exact)
                if not numpy.isfinite(want):
                    continue
                n += 1
                if op == "add_3sum":
                    s, e, t = FP.add_3sum(ctx, xs[0], xs[1], xs[2], Q, P, tot)
                    if not all(numpy.isfinite(v) for v in (s, e, t)) or F(s) + F(e) + F(t) != exact:
                        record(what="s+e+t != x+y+z", x=xs[0], y=xs[1], z=xs[2], s=s, e=e, t=t)
                    got = s + (e + t)
                    if ulpdiff(dtype(got), want, it) > 1:
                        record(what="s+(e+t) more than 1 ULP from RN(x+y+z)", x=xs[0], y=xs[1], z=xs[2], got=dtype(got), want=want)
                else:
                    got = dtype(FP.add_4sum(ctx, xs[0], xs[1], xs[2], xs[3], Q, P, tot))
                    if ulpdiff(got, want, it) > 1:
                        record(what="more than 1 ULP from RN(x+y+z+w)", x=xs[0], y=xs[1], z=xs[2], w=xs[3], got=got, want=want)
        elif op in ("mul_add", "dot2"):
            lim = numpy.sqrt(big) / dtype(2)
            for _ in range(count):
                a, b, c, d = operands(dtype, rng, 4)
                a, b = clamp(a, lim, dtype), clamp(b, lim, dtype)
                if op == "mul_add":
                    c = clamp(c, big / dtype(2), dtype)
                    if rng.integers(0, 3) == 0:
                        c = clamp(-(a * b) * dtype(1 + int(rng.integers(-2, 3)) * float(fi.eps)), big / dtype(2), dtype)
                    exact = F(a) * F(b) + F(c)
                    bound = 2
                else:
                    c, d = clamp(c, lim, dtype), clamp(d, lim, dtype)
                    if rng.integers(0, 3) == 0:
                        c, d = a, clamp(-b * dtype(1 + int(rng.integers(-2, 3)) * float(fi.eps)), lim, dtype)
                    exact = F(a) * F(b) + F(c) * F(d)
                    bound = 3
                want = rn(dtype, exact)
                # the Dekker error term must be representable: keep products clear of the underflow region
                small = Fraction(float(fi.smallest_normal)) * (1 << (2 * p))
                prods = [abs(F(a) * F(b))] + ([abs(F(c) * F(d))] if op == "dot2" else [])
                if not numpy.isfinite(want) or any(0 < q < small for q in prods):
                    continue
                n += 1
                if op == "mul_add":
                    got = dtype(FP.mul_add(ctx, a, b, c, C, Q, P, tot))
                    if ulpdiff(got, want, it) > bound:
                        record(what="more than 2 ULP from RN(x*y+z)", x=a, y=b, z=c, got=got, want=want)
                else:
                    got = dtype(FP.dot2(ctx, a, b, c, d, C, Q, P, tot))
                    if ulpdiff(got, want, it) > bound:
                        record(what="more than 3 ULP from RN(x*y+z*w)", x=a, y=b, z=c, w=d, got=got, want=want)
        elif op.startswith("fma"):
            _, alg, fo, pz = op.split(":")
            fo, pz = fo == "True", pz == "True"
            for _ in range(count):
                a, b, c = operands(dtype, rng, 3)
                mode = int(rng.integers(0, 7))
                exact_xy = F(a) * F(b)
                if mode == 6:  # product close to the overflow threshold AND cancellation
                    tfrac = Fraction(int(rng.integers(0, 1 << 20)), 1 << 20) / (1 << (p // 2 - 1))
                    b = rn(dtype, F(big) * (1 - tfrac) / abs(F(a))) * dtype(1 if rng.integers(0, 2) else -1) if a != 0 else b
                    if not numpy.isfinite(b):
                        continue
                    pr = rn(dtype, F(a) * F(b))
                    c = -pr * dtype(1 + int(rng.integers(-3, 4)) * float(fi.eps)) if numpy.isfinite(pr) else c
                elif mode == 0:  # cancellation
                    c = rn(dtype, -exact_xy) * dtype(1 + int(rng.integers(-3, 4)) * float(fi.eps))
                elif mode == 1:  # z = 0 and tiny z
                    c = dtype(0) if rng.integers(0, 2) else fi.smallest_subnormal * dtype(int(rng.integers(1, 4)))
                elif mode == 2:  # product close to the overflow threshold, both signs
                    tfrac = Fraction(int(rng.integers(0, 1 << 20)), 1 << 20) / (1 << (p // 2 - 1))
                    b = rn(dtype, F(big) * (1 - tfrac) / abs(F(a))) * dtype(1 if rng.integers(0, 2) else -1) if a != 0 else b
                    if not numpy.isfinite(b):
                        continue
                    exact_xy = F(a) * F(b)
                    c = [dtype(0), dtype(1), -numpy.sign(a * b) * numpy.ldexp(dtype(1), int(fi.maxexp) - 2 * p)][int(rng.integers(0, 3))]
                elif mode == 3:  # z half an ulp of the product (ties)
                    pr = rn(dtype, exact_xy)
                    if numpy.isfinite(pr) and pr != 0:
                        c = numpy.ldexp(dtype(1), int(numpy.frexp(pr)[1]) - p - 1) * dtype(1 if rng.integers(0, 2) else -1)
                exact_xy = F(a) * F(b)
                if not numpy.isfinite(rn(dtype, exact_xy)) or not numpy.isfinite(c):
                    continue
                want = rn(dtype, exact_xy + F(c))
                if not numpy.isfinite(want):
                    continue
                # documented limits of the variants: without fix_overflow the intermediate arithmetic may overflow (result nan),
                # without possibly_zero_z a zero z is not handled - those variants are exercised away from these cases
                cls = classify_fma(dtype, a, b, c)
                if (not fo and cls.startswith("overflow-margin")) or (not pz and c == 0):
                    continue
                n += 1
                counts[cls] = counts.get(cls, 0) + 1
                try:
                    got = dtype(AA.fma_real(ctx, a, b, c, algorithm=alg, fix_overflow=fo, possibly_zero_z=pz))
                except Exception as ex:
                    record(cls, what="raised", x=a, y=b, z=c, raised=repr(ex)[:200])
                    continue
                if ulpdiff(got, want, it) > 1:
                    record(cls, what="more than 1 ULP from RN(x*y+z)", x=a, y=b, z=c, got=got, want=want, ulps=ulpdiff(got, want, it))
    if not op.startswith("fma"):
        counts["all"] = n
    return tn, op, counts, fails


FMA_REGIONS = ("interior", "underflow-margin", "overflow-margin", "overflow-margin+cancellation", "overflow-margin+rounded-product-plus-z-overflows")


def classify_fma(dtype, a, b, c):
    """region of the operand space an fma input lies in - a function of the INPUT only (never of the outcome), so that each
    region is its own obligation and a known finding in one region cannot hide a failure in another"""
    fi = numpy.finfo(dtype)
    p = fi.nmant + 1
    sxy = F(a) * F(b)
    xy = abs(sxy)
    big = F(fi.max)
    tiny = F(fi.smallest_normal)
    if xy > big / (1 << (p // 2 + 2)) or abs(F(c)) > big / 4 or abs(F(a)) > big / (1 << (p // 2 + 2)) or abs(F(b)) > big / (1 << (p // 2 + 2)):
        with numpy.errstate(all="ignore"):
            if not numpy.isfinite(rn(dtype, sxy) + c):
                return "overflow-margin+rounded-product-plus-z-overflows"
        if abs(sxy + F(c)) * 4 <= xy:
            return "overflow-margin+cancellation"
        return "overflow-margin"
    if xy != 0 and xy < tiny * (1 << (2 * p)) or (c != 0 and abs(F(c)) < tiny * (1 << p)) or min(abs(F(a)), abs(F(b))) < tiny * (1 << p):
        return "underflow-margin"
    return "interior"


def ops_list():
    return ["add_3sum", "add_4sum", "add_4sum-pair-cancellation", "mul_add", "dot2"] + ["fma:%s:%s:%s" % v for v in FMA_VARIANTS]


def run(rep, tier, prop="C11"):
    per = {"float16": 6000, "float32": 3000, "float64": 3000} if tier == "quick" else {"float16": 60000, "float32": 30000, "float64": 30000}
    jobs = []
    nsplit = 2
    for tn in TYPES:
        for op in ops_list():
            # the pair-cancellation tuples expose a wrong second-order term of add_dw about once in 2000: four times the tuples
            ns, cnt = (8, per[tn] * 4) if op == "add_4sum-pair-cancellation" else (nsplit, per[tn])
            for k in range(ns):
                jobs.append((tn, op, core.SEED * 7919 + 31 * k + sum(map(ord, tn + op)), cnt // ns))
    agg, seen = {}, {}
    with mp.get_context("fork").Pool(core.NPROC) as pool:
        for tn, op, counts, fails in pool.imap_unordered(job, jobs):
            for region, k in counts.items():
                seen[(tn, op, region)] = seen.get((tn, op, region), 0) + k
            for region, lst in fails.items():
                agg.setdefault((tn, op, region), []).extend(lst)
    for tn in TYPES:
        for op in ops_list():
            if op.startswith("fma"):
                _, alg, fo, pz = op.split(":")
                regions = [r for r in FMA_REGIONS if fo == "True" or not r.startswith("overflow-margin")]
                fnname = "apmath_algorithms.fma_real"
            else:
                regions, fnname = ["all"], "floating_point_algorithms.%s" % op.split("-")[0]
            for region in regions:
                lst = agg.get((tn, op, region), [])
                cnt = seen.get((tn, op, region), 0)
                oid = "%s/bounded/%s/%s/%s" % (prop, ("fma@" + region) if op.startswith("fma") else op, op.split(":", 1)[1].replace(":", ",") if op.startswith("fma") else "-", tn)
                # intermediate underflow is outside the documented domain of the fma variants ("underflow occurred in fma
                # arithmetics"): exercised and reported, never an alarm
                claimed = region != "underflow-margin"
                rep.add(core.decided(oid, prop, not lst, functions=(fnname,), text="bounded stand-in: %s, region %s, %d directed operand tuples" % (op, region, cnt), detail=dict(failures=lst[:3], inputs=cnt), claimed=claimed, kind="bounded", solver="native-run", meta=dict(part="bounded", fails=lst[:3], t=tn, op=op, region=region)))
    rep.bounded.append(dict(what="add_3sum (exact triple and 1 ULP), add_4sum (1 ULP), mul_add (2 ULP), dot2 (3 ULP), fma_real for a7/a8/a9/apmath x fix_overflow x possibly_zero_z (1 ULP, whenever x*y and x*y+z are finite) executed natively against an exact rational reference rounded once", bound="%s directed operand tuples per operation and format (seeded; binade edges, few-bit significands, cancellation, ties, overflow/underflow margins)" % per, counted_as_proved=False))


def rerun(meta):
    """evaluate the real function again on the recorded failing operands"""
    import functional_algorithms.apmath_algorithms as AA
    import functional_algorithms.utils as U

    out = []
    op = meta.get("op", "")
    if not op.startswith("fma"):
        return out
    _, alg, fo, pz = op.split(":")
    dtype = getattr(numpy, meta["t"])
    ctx = U.NumpyContext(dtype)
    for f in meta.get("fails") or []:
        try:
            x, y, z = (eval(f[k], {"np": numpy, "nan": numpy.nan, "inf": numpy.inf}) for k in "xyz")
            with numpy.errstate(all="ignore"):
                got = dtype(AA.fma_real(ctx, x, y, z, algorithm=alg, fix_overflow=fo == "True", possibly_zero_z=pz == "True"))
            want = rn(dtype, F(x) * F(y) + F(z))
            out.append(dict(x=repr(x), y=repr(y), z=repr(z), got=repr(got), want=repr(want), ulps=ulpdiff(got, want, ITYPE[meta["t"]])))
        except Exception as ex:
            out.append(dict(error=repr(ex)))
    return out


def replay(o):
    meta = o.meta or {}
    fails = meta.get("fails") or []
    if meta.get("part") != "bounded":
        return None
    return dict(replayed=bool(fails), failing_inputs=fails, witness_class="%s in region %s" % (meta.get("op", "").split(":")[0], meta.get("region")))
