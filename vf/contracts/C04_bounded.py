"""C04, BOUNDED STAND-IN (never counted as proved): the proof obligations are per rule method and per inference case; that the
rewriter as a whole (its traversal, rule ordering, constant folding across types, the cast rules, which have no
denotation in the proof engine) preserves values is left to an argument.  Seeded random expression graphs over the kinds
of the statement (arithmetic, comparisons, logical ops, select, min/max, abs, sign, sqrt, square, numeric constants,
up/downcast) are traced, rewritten by the real `rewrite` module (as the package does: after the target's pass), both
versions are printed by the NumPy target and executed; on every input where the original evaluates without NaN, overflow
or underflow at any node, the results must be identical (floats up to the sign of zero), and rewriting must not raise.
"""
from __future__ import annotations

import inspect
import re
import multiprocessing as mp
import warnings

import numpy

from vf import core

UNARY = ["negative", "absolute", "square", "sqrt", "sign", "upcast_downcast", "downcast_upcast"]
BINARY = ["add", "subtract", "multiply", "divide", "maximum", "minimum"]
CONSTS = [0.0, 1.0, -1.0, 2.0, 0.5, 1.5, -2.5, 3, -1, 0, 0.1, 1e-3]
GRID = [0.5, -0.25, 2.0, 0.0, -0.0, 1.0, -3.5, 1e-3, -7.25, 0.1, 3.0, 1e6]
NAMES = ["x", "y", "z", "w"]
REL = {"lt": lambda p, q: p < q, "le": lambda p, q: p <= q, "gt": lambda p, q: p > q, "ge": lambda p, q: p >= q, "eq": lambda p, q: p == q, "ne": lambda p, q: p != q}


def build_plan(rng, nsym, nnodes):
    plan, pool = [], nsym
    for _ in range(nnodes):
        r = int(rng.integers(0, 12))
        if r < 3:
            plan.append((UNARY[int(rng.integers(0, len(UNARY)))], (int(rng.integers(0, pool)),)))
        elif r < 7:
            plan.append((BINARY[int(rng.integers(0, len(BINARY)))], (int(rng.integers(0, pool)), int(rng.integers(0, pool)))))
        elif r < 9:
            plan.append(("const", (int(rng.integers(0, len(CONSTS))), int(rng.integers(0, nsym)), int(rng.integers(0, 2)))))
        else:
            rels = list(REL)
            plan.append(("select", (rels[int(rng.integers(0, 6))], int(rng.integers(0, pool)), int(rng.integers(0, pool)), int(rng.integers(0, pool)), int(rng.integers(0, pool)), int(rng.integers(0, 4)), rels[int(rng.integers(0, 6))], int(rng.integers(0, pool)), int(rng.integers(0, pool)))))
        pool += 1
    return plan, (int(rng.integers(nsym, pool)), int(rng.integers(0, pool)))


def make_body(plan, tail, wide):
    def body(ctx, syms):
        vals = list(syms)
        for kind, ops in plan:
            if kind == "const":
                vals.append(ctx.constant(CONSTS[ops[0]], vals[ops[1]]) if ops[2] or True else ctx.constant(CONSTS[ops[0]]))
            elif kind == "select":
                rel, a, b, c, d, comb, rel2, a2, b2 = ops
                cond = REL[rel](vals[a], vals[b])
                if comb == 1:
                    cond = ctx.logical_and(cond, REL[rel2](vals[a2], vals[b2]))
                elif comb == 2:
                    cond = ctx.logical_or(cond, REL[rel2](vals[a2], vals[b2]))
                elif comb == 3:
                    cond = ctx.logical_not(cond)
                vals.append(ctx.select(cond, vals[c], vals[d]))
            elif kind == "negative":
                vals.append(-vals[ops[0]])
            elif kind == "upcast_downcast":
                vals.append(ctx.upcast(ctx.downcast(vals[ops[0]])) if wide else vals[ops[0]] + vals[ops[0]])
            elif kind == "downcast_upcast":
                vals.append(ctx.downcast(ctx.upcast(vals[ops[0]])) if not wide else vals[ops[0]] * vals[ops[0]])
            elif len(ops) == 1:
                vals.append(getattr(ctx, kind)(vals[ops[0]]))
            else:
                f = {"add": lambda p, q: p + q, "subtract": lambda p, q: p - q, "multiply": lambda p, q: p * q, "divide": lambda p, q: p / q}.get(kind)
                vals.append(f(vals[ops[0]], vals[ops[1]]) if f else getattr(ctx, kind)(vals[ops[0]], vals[ops[1]]))
        return vals[-1] * vals[tail[0]] - vals[tail[1]]

    return body


def node_values_ok(fn_dbg, xs, tiny):
    """evaluate with every node bound and shown (debug run): True when no node is NaN, infinite or subnormal"""
    return True


def job(arg):
    seed, count = arg
    warnings.simplefilter("ignore")
    import functional_algorithms as fa
    from functional_algorithms import targets

    from vf.contracts.C05 import ref_sem
    from vf.contracts.C05_bounded import interpret

    rng = numpy.random.default_rng(seed)
    fails = {}
    n = {}

    def rec(name, **kw):
        # one obligation per mode AND kind of failure, so that a listed finding of one kind never hides another
        cat = "raises" if "raised" in kw.get("what", "") else "result-differs"
        lst = fails.setdefault(name + "/" + cat, [])
        m = re.search(r"raised (\w+)\(", kw.get("what", ""))
        if len(lst) < 3 or (m and not any(m.group(1) + "(" in f.get("what", "") for f in lst)):
            lst.append(kw)

    def sem(kind):
        if kind == "upcast":
            return lambda a: numpy.float64(a)
        if kind == "downcast":
            return lambda a: numpy.float32(a)
        return ref_sem(kind)

    with numpy.errstate(all="ignore"):
        for _ in range(count):
            mode = ["float32", "float64", "float", "mixed-widths", "deep_first=False", "enable_alt"][int(rng.integers(0, 6))]
            tname = mode if mode in ("float32", "float64", "float") else ["float32", "float64"][int(rng.integers(0, 2))]
            t = getattr(numpy, tname) if tname != "float" else float  # "float": the untyped context, Python target
            tgt = targets.numpy if tname != "float" else targets.python
            wide = tname == "float64"
            nsym = int(rng.integers(1, 4))
            names = NAMES[:nsym]
            plan, tail = build_plan(rng, nsym, int(rng.integers(2, 9)))
            body = make_body(plan, tail, wide)

            def f(ctx, *args):
                return body(ctx, list(args))

            f.__signature__ = inspect.Signature([inspect.Parameter("ctx", inspect.Parameter.POSITIONAL_OR_KEYWORD)] + [inspect.Parameter(nm, inspect.Parameter.POSITIONAL_OR_KEYWORD, annotation=float) for nm in names])
            desc = dict(dtype=tname, mode=mode, symbols=names, plan=[(k, list(o)) for k, o in plan], tail=list(tail))
            key = mode
            n[key] = n.get(key, 0) + 1
            types = [t] * nsym
            if mode == "mixed-widths":
                types = [numpy.float32 if i % 2 == 0 else numpy.float64 for i in range(nsym)]
                if any(k in ("upcast_downcast", "downcast_upcast") for k, _ in plan) or nsym < 2:
                    n[key] -= 1
                    continue
            try:
                ctx = fa.Context(paths=[fa.algorithms], enable_alt=True) if mode == "enable_alt" else fa.Context(paths=[fa.algorithms])
                if tname == "float" and any(k in ("upcast_downcast", "downcast_upcast") for k, _ in plan):
                    n[key] -= 1
                    continue  # casts need sized types
                g = ctx.trace(f, *types)
                f1 = tgt.as_function(g, debug=0) if tname != "float" else tgt.as_function(g)
            except NotImplementedError:
                n[key] -= 1
                continue
            except Exception as e:
                n[key] -= 1
                continue  # the un-rewritten graph is C05's business
            try:
                g2 = g.rewrite(tgt, fa.rewrite, deep_first=False) if mode == "deep_first=False" else g.rewrite(tgt, fa.rewrite)
                f2 = tgt.as_function(g2, debug=0) if tname != "float" else tgt.as_function(g2)
            except Exception as e:
                rec(key, what="rewriting / printing the rewritten graph raised %r" % (e,), graph=desc)
                continue
            tiny = float(numpy.finfo(t if tname != "float" else numpy.float64).smallest_normal)
            for k in range(8):
                xs = [tt(GRID[int(rng.integers(0, len(GRID)))]) for tt in types]
                try:
                    cache = {}
                    interpret(g.operands[-1], dict(zip(names, xs)), cache, sem)
                except Exception:
                    continue
                vals = [v for v in cache.values() if not isinstance(v, (bool, numpy.bool_))]
                if any((not numpy.isfinite(v)) or (v != 0 and abs(float(v)) < tiny) for v in vals):
                    continue  # NaN, overflow or underflow at some node: outside the clause
                try:
                    a = f1(*xs)
                except Exception:
                    continue
                try:
                    b = f2(*xs)
                except Exception as e:
                    rec(key, what="the rewritten function raised %r" % (e,), graph=desc, inputs=[repr(v) for v in xs])
                    break
                a_, b_ = numpy.asarray(a), numpy.asarray(b)
                same = bool(a_ == b_) if not (numpy.isnan(a_) and numpy.isnan(b_)) else True
                if not same or (tname != "float" and a_.dtype != b_.dtype):
                    rec(key, what="original %r, rewritten %r" % (a, b), graph=desc, inputs=[repr(v) for v in xs])
                    break
    return n, fails


def run(rep, tier, prop="C04"):
    per = 1600 if tier == "quick" else 24000
    jobs = [(core.SEED * 67867967 + 11 * k, per // 16) for k in range(16)]
    agg, seen = {}, {}
    with mp.get_context("fork").Pool(core.NPROC) as pool:
        for n, fails in pool.imap_unordered(job, jobs):
            for k, v in n.items():
                seen[k] = seen.get(k, 0) + v
            for k, lst in fails.items():
                agg.setdefault(k, []).extend(lst)
    for key in [m + "/" + c for m in ("float32", "float64", "float", "mixed-widths", "deep_first=False", "enable_alt") for c in ("result-differs", "raises")]:
        lst = agg.get(key, [])
        rep.add(core.decided("%s/bounded/rewrite-preserves-value/%s" % (prop, key), prop, not lst and seen.get(key.split("/")[0], 0) > 0, functions=("rewrite.Rewriter", "expr.Expr.rewrite"), text="bounded stand-in: %d random graphs rewritten, both versions executed" % seen.get(key.split("/")[0], 0), detail=dict(failures=lst[:3], graphs=seen.get(key.split("/")[0], 0)), kind="bounded", solver="native-run", meta=dict(part="bounded", fails=lst[:6], key=key)))
    rep.bounded.append(dict(what="random graphs over the kinds of the statement (incl. up/downcast chains, mixed int/float constants, nested selects with combined conditions) rewritten by the real rewrite module after the NumPy target's pass; original and rewritten graph executed through the NumPy printer and compared wherever no node of the original is NaN, infinite or subnormal", bound="%d seeded graphs of 2..8 operation nodes over 1..3 symbols, float32 and float64, 8 input points each" % per, counted_as_proved=False))


def replay(o):
    meta = o.meta or {}
    if meta.get("part") != "bounded":
        return None
    fails = meta.get("fails") or []
    excs = sorted({m.group(1) for f in fails for m in [re.search(r"raised (\w+)\(", str(f.get("what", "")))] if m})
    return dict(replayed=bool(fails), failing_inputs=fails, witness_class="rewrite %s%s" % (meta.get("key"), (" " + ",".join(excs)) if excs else ""))
