"""C05, BOUNDED STAND-IN (never counted as proved) for the step the obligations O1-O8 leave to an argument: "by induction
over the graph the emitted program evaluates the graph".  Seeded random expression graphs (shared sub-expressions,
symbols whose names contain underscores, constants incl. signed zeros / infinities / NaN, selects on comparisons,
list-typed arguments) are traced with the package's tracer, printed by the real NumPy and Python printers (both cast
settings, debug 0 and 1), executed, and compared bit for bit with a direct interpretation of the graph by the reference
semantics of each kind (the table of O1, independent of the templates).
"""
from __future__ import annotations

import math
import multiprocessing as mp
import warnings

import numpy

from vf import core

UNARY = ["negative", "absolute", "square", "sqrt", "floor", "ceil", "sign", "exp", "log1p", "sin", "atan", "tanh"]
BINARY = ["add", "subtract", "multiply", "divide", "maximum", "minimum", "copysign", "hypot", "atan2"]
CONSTS = [0.0, -0.0, 1.0, -1.0, 2.0, 0.5, 1.5, -2.5, 3, -1, float("inf"), float("-inf"), float("nan"), 1e-3, 1e30]
NAMES = ["x", "y", "a_b", "c", "a", "b_c", "x_0", "z_1_"]
GRID = [0.5, -0.25, 2.0, 0.0, -0.0, 1.0, -3.5, float("inf"), float("-inf"), float("nan"), 1e-30, -7.25]


def build_graph(rng, nsym, nnodes, use_list):
    """returns (function to trace, description) building a random DAG through the tracing context"""
    plan = []  # (kind, operand indices) over the pool: first the symbols
    pool = nsym
    for _ in range(nnodes):
        r = int(rng.integers(0, 10))
        if r < 3:
            plan.append((UNARY[int(rng.integers(0, len(UNARY)))], (int(rng.integers(0, pool)),)))
        elif r < 7:
            plan.append((BINARY[int(rng.integers(0, len(BINARY)))], (int(rng.integers(0, pool)), int(rng.integers(0, pool)))))
        elif r < 8:
            plan.append(("const", (int(rng.integers(0, len(CONSTS))), int(rng.integers(0, nsym)))))
        else:
            plan.append(("select", (["lt", "le", "gt", "ge", "eq", "ne"][int(rng.integers(0, 6))], int(rng.integers(0, pool)), int(rng.integers(0, pool)), int(rng.integers(0, pool)), int(rng.integers(0, pool)))))
        pool += 1
    # the result combines the last node with two earlier ones so that several nodes are shared
    tail = (int(rng.integers(nsym, pool)), int(rng.integers(0, pool)))
    return plan, tail


def make_tracer(plan, tail, nsym, use_list):
    def body(ctx, syms):
        vals = list(syms)
        for kind, ops in plan:
            if kind == "const":
                vals.append(ctx.constant(CONSTS[ops[0]], vals[ops[1]]))
            elif kind == "select":
                rel, a, b, c, d = ops
                cond = {"lt": lambda p, q: p < q, "le": lambda p, q: p <= q, "gt": lambda p, q: p > q, "ge": lambda p, q: p >= q, "eq": lambda p, q: p == q, "ne": lambda p, q: p != q}[rel](vals[a], vals[b])
                vals.append(ctx.select(cond, vals[c], vals[d]))
            elif len(ops) == 1:
                vals.append(getattr(ctx, kind)(vals[ops[0]]) if kind not in ("negative",) else -vals[ops[0]])
            else:
                f = {"add": lambda p, q: p + q, "subtract": lambda p, q: p - q, "multiply": lambda p, q: p * q, "divide": lambda p, q: p / q}.get(kind)
                vals.append(f(vals[ops[0]], vals[ops[1]]) if f else getattr(ctx, kind)(vals[ops[0]], vals[ops[1]]))
        last = vals[-1]
        return last * last + vals[tail[0]] * ctx.constant(3.0, vals[0]) - vals[tail[1]]

    return body


def interpret(e, env, cache, ref_sem, as_python=False):
    """direct evaluation of an expression node by the reference semantics of its kind (float64 / bool)"""
    k = id(e)
    if k in cache:
        return cache[k]
    kind = e.kind
    if kind == "symbol":
        r = env[str(e.operands[0])]
    elif kind == "constant":
        v = e.operands[0]
        if isinstance(v, str):
            raise NotImplementedError("named constant")
        r = float(v) if as_python else numpy.float64(v)
    elif kind == "item":
        r = env[str(e.operands[0].operands[0]) if False else e.ref]
    else:
        args = [interpret(o, env, cache, ref_sem, as_python) for o in e.operands]
        f = ref_sem(kind)
        if f is None:
            raise NotImplementedError(kind)
        r = f(*args)
        if not isinstance(r, (bool, numpy.bool_)) and not as_python:
            r = numpy.float64(r)
    cache[k] = r
    return r


def job(arg):
    seed, count = arg
    warnings.simplefilter("ignore")
    import functional_algorithms as fa
    from functional_algorithms import targets

    from vf.contracts.C05 import PYMATH, ref_sem, same_value

    def ref_sem_py(kind):
        """Python target: transcendental kinds are the math-module functions (spec table PYMATH, from the documentation)"""
        if kind in PYMATH:  # incl. floor / ceil / trunc, which return Python ints (the target's primitives, trusted as such)
            return getattr(math, PYMATH[kind])
        if kind == "sign":
            return lambda a: 0 if a == 0 else math.copysign(1, a)
        if kind == "square":
            return lambda a: a * a
        if kind == "sqrt":
            return math.sqrt
        return ref_sem(kind)

    rng = numpy.random.default_rng(seed)
    fails = {}
    n = {}

    def rec(name, **kw):
        lst = fails.setdefault(name, [])
        if len(lst) < 3:
            lst.append(kw)

    import inspect

    with numpy.errstate(all="ignore"):
        for _ in range(count):
            nsym = int(rng.integers(1, 5))
            names = [NAMES[i] for i in rng.permutation(len(NAMES))[:nsym]]
            use_list = bool(rng.integers(0, 4) == 0) and nsym >= 2
            plan, tail = build_graph(rng, nsym, int(rng.integers(2, 9)), use_list)
            directed = int(rng.integers(0, 4))
            if directed == 0 and not use_list:
                # twin nodes that differ only in how their operand names split at "_" (auto-generated names must still differ)
                nsym, names = 4, ["a_b", "c", "a", "b_c"]
                k = BINARY[int(rng.integers(0, len(BINARY)))]
                more, _ = build_graph(rng, 6, int(rng.integers(1, 5)), False)  # the 4 symbols and the twins are its leaves
                more = [(kk, ops if kk != "const" else (ops[0], min(ops[1], 3))) for kk, ops in more]
                plan = [(k, (0, 1)), (k, (2, 3))] + more
                tail = (4, 5)
            elif directed == 1:
                # twin nodes that differ only in a constant operand (signed zeros, int/float, NaN)
                i1, i2 = [int(v) for v in rng.permutation(len(CONSTS))[:2]]
                k = ["copysign", "atan2", "maximum", "add", "multiply"][int(rng.integers(0, 5))]
                base = nsym
                plan = [("const", (i1, 0)), ("const", (i2, 0)), (k, (0, base)), (k, (0, base + 1))]
                tail = (base + 2, base + 3)
            body = make_tracer(plan, tail, nsym, use_list)
            if use_list:

                def f(ctx, items: list):
                    return body(ctx, [items[i] for i in range(nsym)])

                sig_types = (eval("list[%s]" % ", ".join(["numpy.float64"] * nsym), {"numpy": numpy, "list": list}),)
            else:

                def f(ctx, *args):
                    return body(ctx, list(args))

                f.__signature__ = inspect.Signature([inspect.Parameter("ctx", inspect.Parameter.POSITIONAL_OR_KEYWORD)] + [inspect.Parameter(nm, inspect.Parameter.POSITIONAL_OR_KEYWORD, annotation=float) for nm in names])
                sig_types = tuple([numpy.float64] * nsym)
            desc = dict(symbols=names if not use_list else "list of %d" % nsym, plan=[(k, list(o)) for k, o in plan], tail=list(tail))
            for tname in ("numpy", "python"):
                if tname == "python" and use_list:
                    continue
                target = getattr(targets, tname)
                key = "%s%s" % (tname, "[list-argument]" if use_list else "")
                n[key] = n.get(key, 0) + 1
                try:
                    ctx = fa.Context(paths=[fa.algorithms])
                    g = ctx.trace(f, *(sig_types if tname == "numpy" else tuple([float] * nsym)))
                    resexpr = g.operands[-1]
                except Exception as e:
                    rec(key, what="tracing raised %r" % (e,), graph=desc)
                    continue
                variants = [(fc, dbg) for fc in (True, False) for dbg in (0, 1)] if tname == "numpy" else [(None, 0)]
                for fc, dbg in variants:
                    try:
                        if tname == "numpy":
                            fn = target.as_function(g, debug=dbg, force_cast_arguments=fc)
                        else:
                            src = g.tostring(target)
                            ns = {}
                            exec(compile(src, "<emitted>", "exec"), dict(math=math), ns)
                            fn = next(v for v in ns.values() if callable(v))
                    except NotImplementedError:
                        n[key] -= 1
                        break  # a kind the target does not print: not a graph of this target
                    except Exception as e:
                        rec(key, what="printing / loading raised %r" % (e,), graph=desc, force_cast_arguments=fc, debug=dbg)
                        break
                    bad = None
                    for t in range(6):
                        xs = [numpy.float64(GRID[int(rng.integers(0, len(GRID)))]) for _ in range(nsym)]
                        try:
                            if use_list:
                                env = {}
                                largs = g.operands[1]
                                for i, it in enumerate(largs.operands):
                                    env[it.ref] = xs[i]
                                got = fn(list(xs))
                            else:
                                env = dict(zip(names, xs))
                                got = fn(*[float(v) for v in xs]) if tname == "python" else fn(*xs)
                        except (ZeroDivisionError, OverflowError, ValueError) as e:
                            if tname == "python":
                                continue  # Python's math raises where IEEE arithmetic returns inf / nan: outside the comparison
                            bad = dict(what="emitted function raised %r" % (e,), inputs=[repr(v) for v in xs])
                            break
                        except Exception as e:
                            bad = dict(what="emitted function raised %r" % (e,), inputs=[repr(v) for v in xs])
                            break
                        try:
                            want = interpret(resexpr, {k: (float(v) if tname == "python" else v) for k, v in env.items()}, {}, ref_sem_py if tname == "python" else ref_sem, as_python=tname == "python")
                        except NotImplementedError:
                            break
                        except (ZeroDivisionError, OverflowError, ValueError):
                            continue
                        if not same_value(got, want):
                            bad = dict(what="emitted function returns %r, the graph evaluates to %r" % (got, want), inputs=[repr(v) for v in xs])
                            break
                    if bad:
                        rec(key, graph=desc, force_cast_arguments=fc, debug=dbg, **bad)
                        break
    return n, fails


def run(rep, tier, prop="C05"):
    per = 600 if tier == "quick" else 8000
    jobs = [(core.SEED * 86028121 + 7 * k, per // 16) for k in range(16)]
    agg, seen = {}, {}
    with mp.get_context("fork").Pool(core.NPROC) as pool:
        for n, fails in pool.imap_unordered(job, jobs):
            for k, v in n.items():
                seen[k] = seen.get(k, 0) + v
            for k, lst in fails.items():
                agg.setdefault(k, []).extend(lst)
    for key in ("numpy", "numpy[list-argument]", "python"):
        lst = agg.get(key, [])
        rep.add(core.decided("%s/bounded/end-to-end/%s" % (prop, key), prop, not lst and seen.get(key, 0) > 0, functions=("targets.%s.Printer" % key.split("[")[0], "expr.Expr.tostring"), text="bounded stand-in: %d random graphs printed, executed and compared with the direct interpretation" % seen.get(key, 0), detail=dict(failures=lst[:3], graphs=seen.get(key, 0)), kind="bounded", solver="native-run", meta=dict(part="bounded", fails=lst[:3], key=key)))
    rep.bounded.append(dict(what="random expression graphs (sharing, underscore names, special constants, selects, list arguments) through the real tracer and NumPy / Python printers, executed and compared bit for bit with a direct interpretation by the reference semantics of each kind", bound="%d seeded graphs of 2..8 operation nodes over 1..4 symbols, 6 input points each from a grid of special values; NumPy with both cast settings and debug 0/1" % per, counted_as_proved=False))


def replay(o):
    meta = o.meta or {}
    if meta.get("part") != "bounded":
        return None
    fails = meta.get("fails") or []
    return dict(replayed=bool(fails), failing_inputs=fails, witness_class="end-to-end %s: %s" % (meta.get("key"), "; ".join(sorted({str(f.get("what", ""))[:40] for f in fails}))))
