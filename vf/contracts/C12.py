"""C12 - floating-point expansion arithmetic preserves value (the exact-sum clause).

Modular verification in exact arithmetic (E4): the real apmath functions vecsum, vecsumerr, renormalize (eager and
functional), nztopk, negate, add, subtract, multiply, square run on ring elements with their callees two_sum,
quick_two_sum and two_prod REPLACED BY THEIR CONTRACTS (discharged under C10):

    two_sum(x, y)  -> (s, x + y - s)     with s an arbitrary value          (s + t = x + y exactly)
    two_prod(x, y) -> (p, x * y - p)     with p an arbitrary value          (p + e = x * y exactly)

Zero tests on items (`_is_nonzero`, `ne`, `==`) fork exhaustively (ring.explore): both outcomes are verified, the
`== 0` side by eliminating a generator.  Postcondition per path: the exact sum of the output equals the exact sum
(resp. product / square) of the input whenever no size limit truncates; with a limit k the output is the first k
items of the unlimited output.  Valid for every floating-point format at once (the callee contracts abstract the
format).  NOT decided here: the normal form (decreasing magnitudes, non-overlap after two passes) and the 1-ulp
bound of products - they need bit-precise reasoning over ~30 chained additions and stay undecided.
"""
from __future__ import annotations

import json
import multiprocessing as mp
import time
import traceback
import types
from fractions import Fraction

import numpy

from vf import core, ring
from vf.ring import NotLinear, Rat, V, explore

PROP = "C12"


class RingCtx:
    dtypes = None
    _mpmath_context = None

    def __init__(self):
        self.fresh = 0

    def constant(self, v, like=None):
        if isinstance(v, str):
            return numpy.finfo(numpy.float64).max if v == "largest" else numpy.float64(0)
        if isinstance(v, (Rat, ring.Poly)):
            return Rat.coerce(v)
        if isinstance(v, numpy.floating):
            return Rat.coerce(Fraction(float(v)))
        return Rat.coerce(v) if isinstance(like, (Rat, type(None))) or like is not None else v

    def _assume_same_dtype(self, *a):
        pass

    def _is_nonzero(self, v):
        return not (Rat.coerce(v) == 0)

    def ne(self, a, b):
        return not (Rat.coerce(a) == Rat.coerce(b))

    def eq(self, a, b):
        return Rat.coerce(a) == Rat.coerce(b)

    def select(self, c, a, b):
        return a if c else b

    def logical_and(self, a, b):
        return bool(a) and bool(b)

    def logical_or(self, a, b):
        return bool(a) or bool(b)

    def logical_not(self, a):
        return not a

    def list(self, lst):
        return list(lst)


class OutOfContract(Exception):
    pass


def module_under_contract(deep=False):
    """apmath with two_sum / quick_two_sum / two_prod replaced by their contracts (every other function is the real code).

    deep=True: vecsum and renormalize are replaced by THEIR contracts as well (a list of the same length with the same
    exact sum - what the direct obligations on vecsum / renormalize establish), so that the callers multiply / square /
    add / subtract are verified against the callee contracts, without forking through the callee bodies."""
    import functional_algorithms.apmath as AP

    g = dict(AP.__dict__)
    counter = [0, None]  # [running number, the current path's generator table]

    def fresh(tag):
        # the values returned by the callee contracts are generators of the path: they are registered in the table that
        # ring.explore substitutes into when a zero test is resolved as `== 0`
        counter[0] += 1
        name = "%s%03d" % (tag, counter[0])
        table = counter[1]
        if name not in table:
            table[name] = V(name)
        return table[name]

    def two_sum(ctx, x, y, fix_overflow=False, assume_fma=False):
        s = fresh("s")
        return s, Rat.coerce(x) + Rat.coerce(y) - s

    def quick_two_sum(ctx, a, b, fix_overflow=False):
        s = fresh("s")
        return s, Rat.coerce(a) + Rat.coerce(b) - s

    def two_prod(ctx, x, y, scale=True, fix_overflow=False, assume_fma=False, dtype=None):
        p = fresh("p")
        return p, Rat.coerce(x) * Rat.coerce(y) - p

    def same_sum_list(seq, tag):
        seq = list(seq)
        out = [fresh(tag) for _ in seq[:-1]]
        out.append(total(seq) - total(out))
        return out

    def vecsum(ctx, seq, fast=False, fix_overflow=False):
        return same_sum_list(seq, "v")

    def renormalize(ctx, seq, functional=False, fast=False, size=None, dtype=None, fix_overflow=False):
        if dtype is not None:
            max_size = {numpy.float16: 4, numpy.float32: 12, numpy.float64: 40}[dtype]
            size = max_size if size is None else min(size, max_size)
        if size is not None and size < len(seq):
            raise OutOfContract("renormalize with a size limit below the input length does not preserve the sum")
        return same_sum_list(seq, "r")

    replaced = ("two_sum", "quick_two_sum", "two_prod") + (("vecsum", "renormalize") if deep else ())
    g.update(two_sum=two_sum, quick_two_sum=quick_two_sum, two_prod=two_prod)
    if deep:
        g.update(vecsum=vecsum, renormalize=renormalize)
    for name, obj in list(AP.__dict__.items()):
        if isinstance(obj, types.FunctionType) and obj.__module__ == AP.__name__ and name not in replaced:
            f = types.FunctionType(obj.__code__, g, name, obj.__defaults__, obj.__closure__)
            f.__kwdefaults__ = obj.__kwdefaults__
            g[name] = f
    # functions wrapped by make_api are closures over `impl`: rebuild impl with the contract namespace
    for name in ("add", "subtract", "multiply", "square"):
        api = AP.__dict__[name]
        impl = None
        for cell in api.__closure__ or ():
            c = cell.cell_contents
            if isinstance(c, types.FunctionType) and c.__name__ == name:
                impl = c
        if impl is not None:
            g["impl_" + name] = types.FunctionType(impl.__code__, g, name, impl.__defaults__, impl.__closure__)
    return g, counter


def total(lst):
    s = Rat.coerce(0)
    for v in lst:
        s = s + Rat.coerce(v)
    return s


def instances(tier):
    nmax = 4 if tier == "quick" else 6
    out = []
    for n in range(1, nmax + 1):
        for fast in (False, True):
            out.append(("vecsum", dict(n=n, fast=fast)))
            out.append(("vecsumerr", dict(n=n, fast=fast)))
            for functional in (False, True):
                out.append(("renormalize", dict(n=n, fast=fast, functional=functional, size=None)))
                if n >= 2:
                    out.append(("renormalize", dict(n=n, fast=fast, functional=functional, size=n - 1)))
    for n1 in range(1, (2 if tier == "quick" else 3) + 1):
        for n2 in range(1, (2 if tier == "quick" else 3) + 1):
            for functional in (False, True):
                out.append(("add", dict(n1=n1, n2=n2, functional=functional)))
                out.append(("subtract", dict(n1=n1, n2=n2, functional=functional)))
    for n1, n2 in ((1, 1), (2, 1), (1, 2)) + (((2, 2),) if tier == "thorough" else ()):
        for functional in (False, True):
            out.append(("multiply", dict(n1=n1, n2=n2, functional=functional)))
    for n in (1, 2):
        for functional in (False, True):
            if n == 2 and functional and tier == "quick":
                continue  # > 20000 paths (functional compaction of 6 items): thorough tier, not claimed
            out.append(("square", dict(n=n, functional=functional)))
    # callers against the callee contracts of vecsum / renormalize (no forking through the callee bodies): larger operands
    nm = 4
    for n1 in range(1, nm + 1):
        for n2 in range(1, nm + 1):
            for functional in (False, True):
                out.append(("multiply", dict(n1=n1, n2=n2, functional=functional, modular=True)))
                out.append(("add", dict(n1=n1, n2=n2, functional=functional, modular=True)))
                out.append(("subtract", dict(n1=n1, n2=n2, functional=functional, modular=True)))
    for n in range(1, nm + 1):
        for functional in (False, True):
            out.append(("square", dict(n=n, functional=functional, modular=True)))
    for n in range(0, 5):
        for k in range(0, n + 1):
            out.append(("nztopk", dict(n=n, k=k)))
    out.append(("negate", dict(n=3)))
    return out


def run_instance(arg):
    fn, p = arg
    g, counter = module_under_contract(deep=bool(p.get("modular")))
    ctx = RingCtx()
    t0 = time.time()
    npaths = 0
    fails = []

    def gens(prefix, n):
        return {"%s%d" % (prefix, i): V("%s%d" % (prefix, i)) for i in range(n)}

    if fn in ("add", "subtract", "multiply"):
        inputs = dict(gens("a", p["n1"]), **gens("b", p["n2"]))
    else:
        inputs = gens("a", p.get("n", 0))

    def run(inp, path):
        counter[0] = 0
        counter[1] = inp
        a = [inp[k] for k in sorted(inp) if k.startswith("a")]
        b = [inp[k] for k in sorted(inp) if k.startswith("b")]
        if fn == "vecsum":
            out = g["vecsum"](ctx, list(a), fast=p["fast"])
            return total(out).same(total(a)) and len(out) == len(a), dict(out=repr(out)[:200])
        if fn == "vecsumerr":
            out = g["vecsumerr"](ctx, list(a), fast=p["fast"])
            return total(out).same(total(a)) and len(out) == len(a), dict(out=repr(out)[:200])
        if fn == "renormalize":
            full = g["renormalize"](ctx, list(a), functional=p["functional"], fast=p["fast"], size=None)
            ok = total(full).same(total(a)) and len(full) <= len(a)
            if p["functional"]:
                ok = ok and len(full) == len(a)
            if p["size"] is not None:
                counter[0] = 0  # same generator names: the second call sees the same callee results
                lim = g["renormalize"](ctx, list(a), functional=p["functional"], fast=p["fast"], size=p["size"])
                ok = ok and len(lim) <= p["size"] and all(Rat.coerce(u).same(Rat.coerce(v)) for u, v in zip(lim, full)) and len(lim) == min(p["size"], len(full))
            return ok, dict(out=repr(full)[:200])
        if fn in ("add", "subtract"):
            out = g["impl_" + fn](ctx, numpy.float64, list(a), list(b), functional=p["functional"])
            want = total(a) + total(b) if fn == "add" else total(a) - total(b)
            return total(out).same(want), dict(out=repr(out)[:200])
        if fn == "multiply":
            out = g["impl_multiply"](ctx, numpy.float64, list(a), list(b), functional=p["functional"])
            return total(out).same(total(a) * total(b)), dict(out=repr(out)[:200])
        if fn == "square":
            out = g["impl_square"](ctx, numpy.float64, list(a), functional=p["functional"])
            return total(out).same(total(a) * total(a)), dict(out=repr(out)[:200])
        if fn == "negate":
            out = g["negate"](ctx, list(a))
            return total(out).same(Rat.coerce(0) - total(a)) and len(out) == len(a), {}
        if fn == "nztopk":
            out = g["nztopk"](ctx, list(a), p["k"])
            # spec: the first k non-zero items in order, padded with zeros (functional length min(k, n))
            nz = [v for v in a if not (Rat.coerce(v) == 0)]
            want = (nz + [Rat.coerce(0)] * len(a))[: min(p["k"], len(a))]
            ok = len(out) == len(want) and all(Rat.coerce(u).same(Rat.coerce(v)) for u, v in zip(out, want))
            return ok, dict(out=repr(out)[:200], want=repr(want)[:200])
        raise KeyError(fn)

    try:
        for inp, path, res in explore(run, inputs, max_paths=20000):
            npaths += 1
            ok, detail = res
            if not ok:
                fails.append(dict(detail, inputs={k: repr(v) for k, v in inp.items()}))
    except OutOfContract as e:
        return arg, None, dict(reason="callee used outside its contract: %s" % e), time.time() - t0
    except NotLinear as e:
        return arg, None, dict(reason="zero test not linear: outside the decidable subset", factor=repr(e.args[0])), time.time() - t0
    except RuntimeError as e:
        if "path explosion" in str(e):
            return arg, None, dict(reason="more than 20000 paths of item zero tests: not decided within the path budget"), time.time() - t0
        return arg, False, dict(raised=traceback.format_exc()[-1200:]), time.time() - t0
    except Exception:
        return arg, False, dict(raised=traceback.format_exc()[-1200:]), time.time() - t0
    return arg, not fails, dict(paths=npaths, fails=fails[:3]), time.time() - t0


def _id(fn, p):
    return "C12/apmath.%s/%s" % (fn, "/".join("%s=%s" % (k, p[k]) for k in sorted(p)))


def replay_instance(arg):
    """native replay on float16/float64 expansions with exact Fraction bookkeeping (the real two_sum is used)"""
    import functional_algorithms.apmath as AP
    import functional_algorithms.utils as U

    fn, p = arg
    rnd = numpy.random.default_rng(core.SEED)
    for t in (numpy.float64, numpy.float16):
        ctx = U.NumpyContext(default_constant_type=t)
        for trial in range(400):
            def ex(n):
                v = [t(rnd.normal() * 2.0 ** rnd.integers(-6, 6)) for _ in range(n)]
                if trial % 3 == 0 and n > 1:
                    v[rnd.integers(0, n)] = t(0)
                if trial % 5 == 0 and n > 1:
                    v[1] = -v[0]
                return v

            fr = lambda lst: sum((Fraction(float(v)) for v in lst), Fraction(0))  # noqa
            try:
                with numpy.errstate(all="ignore"):
                    if fn in ("add", "subtract", "multiply"):
                        a, b = ex(p["n1"]), ex(p["n2"])
                        out = getattr(AP, fn)(ctx, a, b, functional=p.get("functional", False))
                        want = dict(add=fr(a) + fr(b), subtract=fr(a) - fr(b), multiply=fr(a) * fr(b))[fn]
                    elif fn == "square":
                        a = ex(p["n"])
                        out = AP.square(ctx, a, functional=p.get("functional", False))
                        want = fr(a) ** 2
                    elif fn == "nztopk":
                        continue
                    else:
                        a = ex(p["n"])
                        kw = {k: p[k] for k in ("fast", "functional") if k in p}
                        out = getattr(AP, fn)(ctx, a, **kw)
                        want = fr(a) if fn != "negate" else -fr(a)
                    # products: the Dekker error term is exact at float64 for these magnitudes (no underflow); not so at float16
                    if all(numpy.isfinite(v) for v in out) and fr(out) != want and (fn not in ("multiply", "square") or t is numpy.float64):
                        return dict(replayed=True, dtype=t.__name__, inputs=[repr(v) for v in (a if fn not in ("add", "subtract") else a + b)], output=[repr(v) for v in out], exact_sum=str(fr(out)), wanted=str(want))
            except Exception as e:
                return dict(replayed=True, raised=repr(e))
    return dict(replayed=False)


def build(tier, only=None):
    rep = core.Report(PROP, tier)
    rep.trust("vf/ring.py canonical forms; sympy.factor_list for path splitting only", "CPython executing the real apmath functions")
    rep.assume(
        "callee contracts (discharged under C10 for the formats claimed there): two_sum / quick_two_sum return (s, t) with s + t = x + y exactly; two_prod returns (p, e) with p + e = x * y exactly - absent overflow, and for products with the error term representable",
        "exact real arithmetic for everything else; a `select` on (item != 0) and `_is_nonzero` are decided exactly (they fork)",
        "lengths are enumerated: 1..4 (quick) / 1..6 (thorough) for renormalisation, up to 2+2 (3+3) terms for add/subtract, up to 2x1 (2x2) for products - a stated bound on list length; values are universally quantified",
        "the normal-form clause (decreasing magnitudes, non-overlap after at most two passes) and the 1-ulp bound of products are NOT decided by contracts; a BOUNDED native stand-in (vf/contracts/C12_bounded.py) exercises them, and exactness with the real two_sum / quick_two_sum / two_prod, on directed expansions - never counted as proved",
    )
    rep.extraction_drops.append("the make_api dispatch wrapper of add/subtract/multiply/square is bypassed (the decorated implementation is run directly with dtype=float64); mp_ctx paths are not taken")
    inst = instances(tier)
    if only:
        inst = [a for a in inst if only in _id(*a)]
    ctxp = mp.get_context("fork")
    with ctxp.Pool(core.NPROC) as pool:
        results = pool.map(run_instance, inst, chunksize=1)
    for arg, ok, detail, dt in results:
        fn, p = arg
        rep.under_contract("apmath." + fn, "exact sum of the output = exact sum / difference / product of the input on every path of item zero tests")
        o = core.decided(_id(fn, p), PROP, ok, functions=("apmath." + fn,), text="apmath.%s %s: value preserved on every path" % (fn, p), detail=detail, meta=dict(arg=[fn, p]), solver="ring-normal-form", claimed=ok is not None)
        o.seconds = dt
        rep.add(o)
    # canary: dropping an error term must be detected
    x, y, s = V("x"), V("y"), V("s")
    rep.add(core.decided("C12/canary/dropped-error-term", PROP, not total([s]).same(x + y), text="canary: keeping only the rounded sum does not preserve the value", kind="canary"))
    rep.replayers["C12/"] = lambda o: dict(replay_instance(tuple(o.meta["arg"])), witness_class="%s %s" % tuple(o.meta["arg"])) if (o.meta or {}).get("arg") else dict(replayed=False, witness_class=None)
    # bounded stand-in for the clauses outside the ring proofs (labelled bounded; never counted as proved)
    if only is None or "bounded" in only:
        from vf.contracts import C12_bounded

        C12_bounded.run(rep, tier)
        rep.replayers["C12/bounded"] = C12_bounded.replay
    return rep


def main(tier, only=None):
    rep = build(tier, only)
    return rep.finish()


def replay(path):
    d = json.load(open(path))
    if (d.get("meta") or {}).get("part") == "bounded":
        print(json.dumps(d["meta"].get("fails"), indent=1))
        return 1 if d["meta"].get("fails") else 0
    info = replay_instance(tuple(d["meta"]["arg"]))
    print(json.dumps(info, indent=1, default=str))
    return 1 if info.get("replayed") else 0
