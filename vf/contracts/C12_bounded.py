"""C12, BOUNDED STAND-IN (never counted as proved) for the clauses the ring proofs cannot see: exactness where it depends on
the floating-point behaviour of the error-free transformations themselves (the ring contracts of two_sum and
quick_two_sum are the same, so a change that uses the fast variant outside its precondition is invisible there), the
normal form after two passes, and the one-ulp bound of products and squares.  The real apmath functions run natively on
directed expansions (non-overlapping, overlapping, interior zeros, equal magnitudes, cancellation) with exact rational
bookkeeping.
"""
from __future__ import annotations

import multiprocessing as mp
import warnings
from fractions import Fraction

import numpy

from vf import core

TYPES = ("float16", "float32", "float64")


def F(x):
    return Fraction(float(x))


def exponent(x):
    """e with 2**e <= |x| < 2**(e+1) (x finite, non-zero)"""
    return int(numpy.frexp(x)[1]) - 1


def ulp_of(x, dtype):
    fi = numpy.finfo(dtype)
    p = fi.nmant + 1
    return Fraction(2) ** (max(exponent(x), int(fi.minexp)) - p + 1)


def overlap(x, y, dtype):
    """the binary digit ranges of two non-zero floats intersect"""
    return abs(F(x)) >= ulp_of(y, dtype) and abs(F(y)) >= ulp_of(x, dtype)


def gen_expansion(dtype, rng, n, kind, pure=False):
    fi = numpy.finfo(dtype)
    p = fi.nmant + 1
    span = 8 if dtype is numpy.float16 else 40
    e0 = int(rng.integers(-span // 2, span // 2))
    out = []
    for i in range(n):
        m = dtype(rng.integers(1 << (p - 1), 1 << p)) * dtype(2.0 ** (1 - p))
        if rng.integers(0, 2):
            m = -m
        if kind == "nonoverlapping":
            e = e0 - i * (p + int(rng.integers(0, 3)))
        elif kind == "overlapping-decreasing":
            e = e0 - i * int(rng.integers(1, p))
        else:  # arbitrary order
            e = e0 + int(rng.integers(-p, p))
        with numpy.errstate(all="ignore"):
            out.append(numpy.ldexp(m, e))
    if pure:
        return out  # a proper expansion: no injected zeros, cancellation or equal magnitudes
    if kind == "zeros" or (n > 1 and rng.integers(0, 4) == 0):
        out[int(rng.integers(0, n))] = dtype(0)
    if n > 1 and rng.integers(0, 6) == 0:
        out[1] = -out[0]  # cancellation
    if n > 1 and rng.integers(0, 8) == 0:
        out[1] = out[0]  # equal magnitudes
    return out


def decreasing(seq):
    nz = [abs(float(v)) for v in seq if v != 0]
    return all(a >= b for a, b in zip(nz, nz[1:]))


def job(arg):
    tn, what, seed, count = arg
    warnings.simplefilter("ignore")
    import functional_algorithms.apmath as AP
    import functional_algorithms.utils as U

    dtype = getattr(numpy, tn)
    rng = numpy.random.default_rng(seed)
    ctx = U.NumpyContext(dtype)
    fails = {}
    n = 0

    def rec(name, **kw):
        lst = fails.setdefault(name, [])
        if len(lst) < 3:
            lst.append({k: ([repr(u) for u in v] if isinstance(v, list) else v) for k, v in kw.items()})

    tot = lambda lst: sum((F(v) for v in lst), Fraction(0))  # noqa
    fin = lambda lst: all(numpy.isfinite(v) for v in lst)  # noqa
    kinds = ("nonoverlapping", "overlapping-decreasing", "arbitrary", "zeros")
    with numpy.errstate(all="ignore"):
        for _ in range(count):
            kind = kinds[int(rng.integers(0, len(kinds)))]
            k = int(rng.integers(1, 7))
            seq = gen_expansion(dtype, rng, k, kind)
            if not fin(seq):
                continue
            n += 1
            if what == "renormalize":
                for functional in (False, True):
                    for fast in (False, True):
                        if fast and not (decreasing(seq) and kind in ("nonoverlapping", "overlapping-decreasing")):
                            continue  # documented precondition of the fast variant
                        if fast and kind != "nonoverlapping":
                            # decreasing but overlapping input: the documented precondition of the fast variant holds; its own obligation
                            outf = AP.renormalize(ctx, list(seq), functional=functional, fast=True)
                            if fin(outf) and tot(outf) != tot(seq):
                                rec("renormalize/sum[fast,overlapping-decreasing-input]", seq=seq, out=outf, variant="functional=%s,fast=True" % functional)
                            continue
                        out = AP.renormalize(ctx, list(seq), functional=functional, fast=fast)
                        tag = "functional=%s,fast=%s" % (functional, fast)
                        if not fin(out):
                            continue
                        if tot(out) != tot(seq):
                            rec("renormalize/sum", seq=seq, out=out, variant=tag)
                        if (functional and len(out) != len(seq)) or len(out) > len(seq):
                            rec("renormalize/length", seq=seq, out=out, variant=tag)
                        if not fast and out:
                            out2 = AP.renormalize(ctx, list(out), functional=functional, fast=False)
                            if fin(out2):
                                if tot(out2) != tot(seq):
                                    rec("renormalize/sum", seq=seq, out=out2, variant=tag + ",second pass")
                                nz = [v for v in out2 if v != 0]
                                nf = "renormalize/normal-form-after-two-passes[%s]" % ("decreasing-input" if decreasing(seq) else "unordered-input")
                                if not decreasing(out2) or any(overlap(a, b, dtype) for a, b in zip(nz, nz[1:])):
                                    rec(nf, seq=seq, out=out2, variant=tag)
                                if functional and any(a == 0 and b != 0 for a, b in zip(out2, out2[1:])):
                                    rec(nf, seq=seq, out=out2, variant=tag + ",interior zero")
                        # size limit: a prefix of the unlimited output
                        if len(seq) >= 2 and out:
                            kk = int(rng.integers(1, len(seq)))
                            lim = AP.renormalize(ctx, list(seq), functional=functional, fast=fast, size=kk)
                            if len(lim) > kk or [float(v) for v in lim] != [float(v) for v in out[: len(lim)]] or len(lim) != min(kk, len(out)):
                                rec("renormalize/size-limit", seq=seq, out=lim, full=out, variant=tag + ",size=%d" % kk)
            else:
                k2 = int(rng.integers(1, 4))
                a = gen_expansion(dtype, rng, min(k, 3), "nonoverlapping", pure=what == "multiply")
                b = gen_expansion(dtype, rng, k2, "nonoverlapping", pure=what == "multiply")
                if not (fin(a) and fin(b)):
                    continue
                if what == "multiply":
                    # the error term of every partial product must be representable (no underflow inside two_prod)
                    small = F(numpy.finfo(dtype).smallest_normal) * (1 << (numpy.finfo(dtype).nmant + 1))
                    if any(0 < abs(F(u) * F(v)) < small for u in a + b for v in a + b):
                        continue
                if what == "multiply":
                    # size limits: when the exact product fits the allowed number of words (small integers, leading zero
                    # words, exactly cancelling leading words) the limited product must still be that value
                    v1, v2 = dtype(int(rng.integers(1, 30))), dtype(int(rng.integers(1, 30)))
                    pad = int(rng.integers(1, 4))
                    shape = int(rng.integers(0, 3))
                    if shape == 0:
                        az = [dtype(0)] * pad + [v1]
                    elif shape == 1:
                        az = [dtype(2), dtype(-2)][: 2 * (pad > 0)] + [dtype(0)] * (pad - 1) + [v1]
                    else:
                        az = [v1] + [dtype(0)] * pad
                    for functional in (False, True):
                        for kk in (1, 2):
                            for args, nm in (((list(az), [v2]), "a*b"), (([v2], list(az)), "b*a")):
                                outk = AP.multiply(ctx, *args, functional=functional, size=kk)
                                if fin(outk) and (len(outk) > kk or tot(outk) != F(v1) * F(v2)):
                                    rec("multiply/size-limit-exact", a=args[0], b=args[1], out=outk, variant="functional=%s,size=%d,%s" % (functional, kk, nm))
                for functional in (False, True):
                    tag = "functional=%s" % functional
                    if what == "add":
                        for fn, want in (("add", tot(a) + tot(b)), ("subtract", tot(a) - tot(b))):
                            out = getattr(AP, fn)(ctx, list(a), list(b), functional=functional)
                            if fin(out) and tot(out) != want:
                                rec(fn + "/exact", a=a, b=b, out=out, variant=tag)
                    else:
                        for fn, args, want in (("multiply", (list(a), list(b)), tot(a) * tot(b)), ("square", (list(a),), tot(a) ** 2)):
                            out = getattr(AP, fn)(ctx, *args, functional=functional)
                            if not fin(out) or not out:
                                continue
                            lead = next((v for v in out if v != 0), None)
                            if lead is None:
                                if want != 0:
                                    rec(fn + "/one-ulp", a=a, b=b, out=out, variant=tag)
                                continue
                            if abs(tot(out) - want) >= ulp_of(lead, dtype):
                                rec(fn + "/one-ulp", a=a, b=b, out=out, variant=tag, err_in_ulps=float(abs(tot(out) - want) / ulp_of(lead, dtype)))
    return tn, what, n, fails


NAMES = {
    "renormalize": ("renormalize/sum", "renormalize/length", "renormalize/normal-form-after-two-passes[decreasing-input]", "renormalize/normal-form-after-two-passes[unordered-input]", "renormalize/size-limit", "renormalize/sum[fast,overlapping-decreasing-input]"),
    "add": ("add/exact", "subtract/exact"),
    "multiply": ("multiply/one-ulp", "square/one-ulp", "multiply/size-limit-exact"),
}


def empty_operand_cases():
    """the eager functions return [] for an exact zero: [] must then be a legal operand of every function (finite cases)"""
    warnings.simplefilter("ignore")
    import functional_algorithms.apmath as AP
    import functional_algorithms.utils as U

    bad = []
    for tn in TYPES:
        t = getattr(numpy, tn)
        ctx = U.NumpyContext(t)
        with numpy.errstate(all="ignore"):
            z = AP.subtract(ctx, [t(1.5)], [t(1.5)])
            if z != []:
                continue  # zero is not represented by the empty list: nothing to check
            for name, f, want in (("add(z, z)", lambda: AP.add(ctx, z, z), Fraction(0)), ("add(z, [2])", lambda: AP.add(ctx, z, [t(2)]), Fraction(2)), ("subtract([2], z)", lambda: AP.subtract(ctx, [t(2)], z), Fraction(2)), ("renormalize(z)", lambda: AP.renormalize(ctx, z), Fraction(0)), ("multiply(z, [2])", lambda: AP.multiply(ctx, z, [t(2)]), Fraction(0)), ("square(z)", lambda: AP.square(ctx, z), Fraction(0))):
                try:
                    r = f()
                    if sum((F(v) for v in r), Fraction(0)) != want:
                        bad.append(dict(t=tn, call=name, got=[repr(v) for v in r]))
                except Exception as e:
                    bad.append(dict(t=tn, call=name, raised=repr(e)[:120]))
    return bad


def run(rep, tier, prop="C12"):
    per = 3000 if tier == "quick" else 30000
    jobs = []
    for tn in TYPES:
        for what in NAMES:
            for k in range(2):
                jobs.append((tn, what, core.SEED * 104729 + 17 * k + sum(map(ord, tn + what)), per // 2))
    agg, seen = {}, {}
    with mp.get_context("fork").Pool(core.NPROC) as pool:
        for tn, what, n, fails in pool.imap_unordered(job, jobs):
            seen[(tn, what)] = seen.get((tn, what), 0) + n
            for name, lst in fails.items():
                agg.setdefault((tn, name), []).extend(lst)
    for tn in TYPES:
        for what, names in NAMES.items():
            for name in names:
                lst = agg.get((tn, name), [])
                rep.add(core.decided("%s/bounded/%s/%s" % (prop, name, tn), prop, not lst, functions=("apmath.%s" % name.split("/")[0],), text="bounded stand-in: %s on %d directed expansions" % (name, seen.get((tn, what), 0)), detail=dict(failures=lst[:3], inputs=seen.get((tn, what), 0)), kind="bounded", solver="native-run", meta=dict(part="bounded", fails=lst[:3], t=tn, name=name)))
    bad = empty_operand_cases()
    rep.add(core.decided("%s/bounded/empty-expansion-as-operand" % prop, prop, not bad, functions=("apmath.renormalize", "apmath.add", "apmath.square"), text="z = subtract([1.5], [1.5]) is [] (an exact zero): add, subtract, renormalize, multiply, square accept it and keep the exact value", detail=dict(failures=bad[:6]), kind="bounded", solver="native-run", meta=dict(part="bounded", fails=bad[:6], t="-", name="empty-expansion-as-operand")))
    rep.bounded.append(dict(what="renormalize (eager/functional, safe; fast on its documented precondition): exact sum, length, normal form after two passes, size limit = prefix; add/subtract exact; multiply/square within one ulp of the leading term - real functions executed natively with exact rational bookkeeping", bound="%d directed expansions (1..6 items; non-overlapping, overlapping, arbitrary order, zeros, cancellation, equal magnitudes) per function group and format, seeded" % per, counted_as_proved=False))


def replay(o):
    meta = o.meta or {}
    if meta.get("part") != "bounded":
        return None
    fails = meta.get("fails") or []
    return dict(replayed=bool(fails), failing_inputs=fails, witness_class=str(meta.get("name")))
