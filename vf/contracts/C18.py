"""C18 - FPU control context always restores the control register.

Ghost state: M, the MXCSR of the calling thread, a 32-bit value (modelled as a Python int in [0, 2**32)).
Trusted stubs: the two machine-code thunks `_get_mxcsr(ptr)` (*ptr := M) and `_set_mxcsr(ptr)` (M := *ptr),
justified only by a ground obligation on the byte strings in MXCSRRegister.__init__ (0F AE 1F = stmxcsr [rdi],
0F AE 17 = ldmxcsr [rdi], C3 = ret).  Everything else - get_mxcsr, set_mxcsr, __call__, and the
__enter__/__exit__ of the context class created inside __call__ - is the real code object, run on a
symbolic M (E2).

Bit positions come from the Intel SDM (independent of the code): FZ = bit 15, RC = bits 14:13
(00 nearest, 01 down, 10 up, 11 toward zero), DAZ = bit 6.
"""
from __future__ import annotations

import itertools
import json
import types

import z3

from vf import core, symrun
from vf.symrun import SymInt, explore, reglobal, side_vc, vc

PROP = "C18"
W = 48
RN_CODE = dict(nearest=0, down=1, up=2, towardszero=3)


class GhostU32:
    """stands for ctypes.c_uint32: .value is an int in [0, 2**32)"""

    def __init__(self, v=0):
        if isinstance(v, SymInt):
            self.value = SymInt(z3.ZeroExt(W - 32, z3.Extract(31, 0, v.e)))
        else:
            self.value = int(v) % (1 << 32)


class _Ref:
    def __init__(self, obj):
        self.obj = obj


class Machine:
    """ghost hardware: the MXCSR of the calling thread and the executable page written by __init__"""

    cur = None

    def __init__(self, M):
        self.M = M
        self.writes = []
        self.page = bytearray()
        self.base = 0x10000
        self.protected = False

    def thunk(self, addr):
        off = addr - self.base
        code = bytes(self.page[off : off + 4])
        if code == b"\x0f\xae\x17\xc3":  # ldmxcsr [rdi]; ret

            def set_(ref):
                self.M = ref.obj.value
                self.writes.append(self.M)

            return set_
        if code == b"\x0f\xae\x1f\xc3":  # stmxcsr [rdi]; ret

            def get_(ref):
                ref.obj.value = self.M

            return get_
        raise symrun.Unsupported("thunk at offset %d is neither `ldmxcsr [rdi]; ret` nor `stmxcsr [rdi]; ret`: %s" % (off, code.hex()))


class _Buf:
    def write(self, b):
        Machine.cur.page.extend(b)


class MmapShadow:
    PAGESIZE = 4096
    PROT_READ, PROT_WRITE, PROT_EXEC = 1, 2, 4

    @staticmethod
    def mmap(*a, **kw):
        return _Buf()


class _VoidP:
    @staticmethod
    def from_buffer(buf):
        return buf


class CtypesShadow:
    c_uint32 = GhostU32
    c_void_p = _VoidP
    c_size_t = c_int = object

    @staticmethod
    def byref(o):
        return _Ref(o)

    @staticmethod
    def addressof(o):
        return Machine.cur.base

    @staticmethod
    def POINTER(t):
        return ("ptr", t)

    @staticmethod
    def CFUNCTYPE(restype, *argtypes):
        return lambda addr: Machine.cur.thunk(addr)

    @staticmethod
    def get_errno():
        return 0

    class _Lib:
        class _MP:
            argtypes = None
            restype = None

            def __call__(self, addr, size, prot):
                Machine.cur.protected = prot == (MmapShadow.PROT_READ | MmapShadow.PROT_EXEC)
                return 0

        def __init__(self):
            self.mprotect = CtypesShadow._Lib._MP()

    @staticmethod
    def CDLL(*a, **kw):
        return CtypesShadow._Lib()


def load():
    """the REAL class body re-created over a shadow namespace (ctypes / mmap replaced by the ghost machine);
    __init__ runs for real, so whatever it sets up is there"""
    import functional_algorithms.fpu as F

    g = reglobal(F, extra=dict(ctypes=CtypesShadow, mmap=MmapShadow))
    ns = {}
    for name, obj in F.MXCSRRegister.__dict__.items():
        if isinstance(obj, types.FunctionType):
            ns[name] = types.FunctionType(obj.__code__, g, name, obj.__defaults__, obj.__closure__)
        elif isinstance(obj, property):
            ns[name] = property(types.FunctionType(obj.fget.__code__, g, name))
        elif isinstance(obj, staticmethod):
            ns[name] = staticmethod(lambda: True)
    cls = type("MXCSRRegister", (), ns)
    return F, g, cls


def GhostRegister(cls, M):
    Machine.cur = m = Machine(M)
    r = cls()
    r._machine = m
    return r


def mask_value(FZ, DAZ, RN):
    """requested bits per the SDM"""
    mask = val = 0
    if FZ is not None:
        mask |= 1 << 15
        val |= (1 << 15) if FZ else 0
    if DAZ is not None:
        mask |= 1 << 6
        val |= (1 << 6) if DAZ else 0
    if RN is not None:
        mask |= 3 << 13
        val |= RN_CODE[RN] << 13
    return mask, val


def bv(v):
    return z3.BitVecVal(v, W)


def as_e(v):
    return v.e if isinstance(v, SymInt) else bv(int(v))


def in_u32(e):
    return z3.And(e >= 0, e < bv(1 << 32))


COMBOS = list(itertools.product([None, True, False], [None, True, False], [None, "nearest", "down", "up", "towardszero"]))


def cname(FZ, DAZ, RN):
    return "FZ=%s,DAZ=%s,RN=%s" % (FZ, DAZ, RN)


def build(tier):
    rep = core.Report(PROP, tier)
    F, g, ns = load()
    MACH = lambda r: r._machine  # noqa
    rep.trust("z3 5.1 bit-vector theory", "Python `with` / contextlib.ContextDecorator semantics: __exit__ is called exactly once after __enter__ returned, on normal and exceptional exit, and a falsy return re-raises")
    rep.assume(
        "hardware: ldmxcsr/stmxcsr write/read the MXCSR of the calling thread, and SSE arithmetic observes it (the last clause of the statement is NOT decided here)",
        "single thread; the body does not re-enter the SAME context object (the code asserts this precondition itself)",
        "MXCSR value modelled as Python int in [0, 2**32) backed by a %d-bit vector with no-overflow side obligations" % W,
        "ctypes.c_uint32(v).value = v mod 2**32; ctypes.byref(o) passes o by reference",
    )
    rep.extraction_drops.append("MXCSRRegister.__init__ (mmap/mprotect/CFUNCTYPE set-up) is not executed; its byte-string constants are checked by a ground obligation")
    rep.under_contract("fpu.MXCSRRegister.__call__", ["desired = M_call with exactly the requested bits replaced", "context entry uses the register value AT ENTRY"])
    rep.under_contract("fpu.MXCSRRegister.get_mxcsr", ["returns M, M unchanged"])
    rep.under_contract("fpu.MXCSRRegister.set_mxcsr", ["M := val.value"])
    rep.under_contract("fpu.MXCSRRegister.__call__.context.__enter__", ["saved = M; M' differs from M only in requested bits, which take the requested values"])
    rep.under_contract("fpu.MXCSRRegister.__call__.context.__exit__", ["M' = saved = M at entry; returns falsy (exceptions propagate)"])
    rep.under_contract("fpu.MXCSRRegister.__init__", ["thunk bytes are ldmxcsr [rdi]; ret / stmxcsr [rdi]; ret"])

    # --- ground obligation on the machine code constants
    consts = [c for c in F.MXCSRRegister.__init__.__code__.co_consts if isinstance(c, bytes)]
    set_ok = any(c[:4] == b"\x0f\xae\x17\xc3" for c in consts)
    get_ok = any(c[:4] == b"\x0f\xae\x1f\xc3" for c in consts)
    same_len = len({len(c) for c in consts if c[:2] == b"\x0f\xae"}) == 1
    try:
        r0 = GhostRegister(ns, 0x1F80)
        init_ok = r0._machine.protected and r0.get_mxcsr().value == 0x1F80
        init_detail = dict(page=bytes(r0._machine.page).hex(), protected=r0._machine.protected)
    except Exception as e:  # noqa
        init_ok, init_detail = False, dict(raised=repr(e))
    rep.add(core.decided("C18/fpu.MXCSRRegister.__init__/thunks-wired", PROP, init_ok, functions=("fpu.MXCSRRegister.__init__",), text="real __init__ on the ghost machine: page made read+exec, _get_mxcsr/_set_mxcsr point at the stmxcsr/ldmxcsr thunks", detail=init_detail))
    rep.add(core.decided("C18/fpu.MXCSRRegister.__init__/thunk-bytes", PROP, set_ok and get_ok and same_len, functions=("fpu.MXCSRRegister.__init__",), text="byte strings are `0F AE 17 C3` (ldmxcsr [rdi]; ret) and `0F AE 1F C3` (stmxcsr [rdi]; ret); second thunk starts at len(first)", detail=dict(consts=[c.hex() for c in consts])))

    M0 = z3.BitVec("M0", W)  # register when the context object is created
    M1 = z3.BitVec("M1", W)  # register when it is entered (an arbitrary other value: contexts may be created ahead)
    M2 = z3.BitVec("M2", W)  # register at some point inside the body (nested contexts)

    # --- get/set
    def run_gs(e):
        e.assume(in_u32(M0))
        e.assume(in_u32(M1))
        r = GhostRegister(ns, SymInt(M0))
        v = r.get_mxcsr()
        got = v.value
        r.set_mxcsr(GhostU32(SymInt(M1)))
        return got, r._machine.M, isinstance(v, GhostU32)

    for p in explore(run_gs, int_width=W):
        if p.exc is not None:
            rep.add(core.decided("C18/get-set/path=%s/no-exception" % p.sig(), PROP, False, functions=("fpu.MXCSRRegister.get_mxcsr", "fpu.MXCSRRegister.set_mxcsr"), detail=dict(exc=repr(p.exc))))
            continue
        got, M_after, isu = p.result
        rep.add(core.smt("C18/get-set/path=%s/contract" % p.sig(), PROP, vc(p, z3.And(as_e(got) == M0, as_e(M_after) == M1, z3.BoolVal(bool(isu)))), functions=("fpu.MXCSRRegister.get_mxcsr", "fpu.MXCSRRegister.set_mxcsr"), text="get_mxcsr returns M as c_uint32; set_mxcsr(v) sets M := v.value", budget_s=30))

    # --- __call__, __enter__, __exit__ for every argument combination
    for FZ, DAZ, RN in COMBOS:
        mask, val = mask_value(FZ, DAZ, RN)
        cn = cname(FZ, DAZ, RN)

        for exc_case in ("normal", "exception"):

            def run(e, FZ=FZ, DAZ=DAZ, RN=RN, exc_case=exc_case):
                e.assume(in_u32(M0))
                e.assume(in_u32(M1))
                e.assume(in_u32(M2))
                r = GhostRegister(ns, SymInt(M0))
                mach = r._machine
                c = r(FZ=FZ, DAZ=DAZ, RN=RN)  # created while the register holds M0
                desired = c.desired_state.value if hasattr(c, "desired_state") and not callable(c.desired_state) else None
                mach.M = SymInt(M1)  # ... time passes: other contexts are entered; the register now holds M1
                del mach.writes[:]
                enter_ret = c.__enter__()
                M_in = mach.M
                saved_in = c.saved_state.value if c.saved_state is not None else None
                n_writes_enter = len(mach.writes)
                # body: arbitrary nested contexts of the same register; they read the register, change it to any
                # value M2 and restore it (induction hypothesis of the nesting lemma)
                mach.M = SymInt(M2)
                r.get_mxcsr()
                r.FZ, r.DAZ
                r(FZ=True)  # creating (not entering) another context reads the register too
                mach.M = M_in
                if exc_case == "normal":
                    ret = c.__exit__(None, None, None)
                else:
                    ex = ValueError("boom")
                    ret = c.__exit__(ValueError, ex, None)
                return dict(desired=desired, M_in=M_in, saved_in=saved_in, M_out=mach.M, ret=ret, saved_after=c.saved_state, enter_ret=enter_ret, n_writes_enter=n_writes_enter)

            paths = explore(run, int_width=W)
            for p in paths:
                base = "C18/%s/%s/path=%s" % (cn, exc_case, p.sig())
                fns = ("fpu.MXCSRRegister.__call__", "fpu.MXCSRRegister.__call__.context.__enter__", "fpu.MXCSRRegister.__call__.context.__exit__")
                if p.exc is not None:
                    rep.add(core.decided(base + "/no-exception", PROP, False, functions=fns, text="raised %r" % (p.exc,), detail=dict(exc=repr(p.exc)), meta=dict(FZ=FZ, DAZ=DAZ, RN=RN, exc_case=exc_case)))
                    continue
                r = p.result
                meta = dict(FZ=FZ, DAZ=DAZ, RN=RN, exc_case=exc_case)
                if exc_case == "normal":
                    if r["desired"] is not None:
                        # __call__: desired state computed from the register at call time: exact bit update
                        goal = as_e(r["desired"]) == ((M0 & bv(~mask & 0xFFFFFFFF)) | bv(val))
                        rep.add(core.smt(base + "/call/desired==bit-update(M_call)", PROP, vc(p, goal), functions=fns[:1], text="__call__: new value = M with exactly bits %#x replaced by %#x" % (mask, val), budget_s=30, meta=meta))
                    # ENTRY changes only the requested bits of the register value AT ENTRY, and sets them as requested
                    goal = z3.And(((as_e(r["M_in"]) ^ M1) & bv(~mask & 0xFFFFFFFF)) == 0, (as_e(r["M_in"]) & bv(mask)) == bv(val), in_u32(as_e(r["M_in"])))
                    rep.add(core.smt(base + "/enter/changes-only-requested-bits", PROP, vc(p, goal), functions=fns[1:2], text="after __enter__: M' ^ M_entry within mask %#x and M' & mask = %#x" % (mask, val), budget_s=30, meta=meta))
                    rep.add(core.smt(base + "/enter/saves-entry-value", PROP, vc(p, as_e(r["saved_in"]) == M1) if r["saved_in"] is not None else None, functions=fns[1:2], text="__enter__ saves the register value at entry", budget_s=30, meta=meta) if r["saved_in"] is not None else core.decided(base + "/enter/saves-entry-value", PROP, False, functions=fns[1:2], text="no saved state after __enter__", meta=meta))
                # EXIT restores exactly the entry value, normal and exceptional
                rep.add(core.smt(base + "/exit/restores-entry-value", PROP, vc(p, as_e(r["M_out"]) == M1), functions=fns[2:], text="after __exit__ (%s): M == value at entry" % exc_case, budget_s=30, meta=meta))
                rep.add(core.decided(base + "/exit/does-not-swallow", PROP, not r["ret"], functions=fns[2:], text="__exit__ returns a falsy value (exception propagates)", meta=meta))
                rep.add(core.decided(base + "/exit/re-usable", PROP, r["saved_after"] is None, functions=fns[2:], text="after __exit__ the context object can be entered again (saved state cleared)", meta=meta))
                sv = side_vc(p)
                if sv:
                    rep.add(core.smt(base + "/int-model-no-overflow", PROP, sv, functions=fns[:1], kind="lemma", budget_s=30))

    # --- nesting lemma (induction over nesting depth), over the contracts above
    S = z3.BitVecSort(32)
    body = z3.Function("body", S, S)  # effect of the body on the register
    des = z3.Function("desired", S, S)
    m = z3.BitVec("m", 32)
    s = z3.Solver()
    # IH: the body (a well-nested sequence of shallower depth) restores the register
    s.add(z3.ForAll([m], body(m) == m))
    saved = m
    m_in = des(m)
    m_body = body(m_in)
    m_out = saved
    s.add(m_out != m)
    rep.add(core.smt("C18/nesting-lemma", PROP, s, functions=("fpu.MXCSRRegister.__call__.context.__exit__",), text="if the body restores M then `enter; body; exit` restores M (from the enter/exit contracts): induction step for any nesting depth", kind="lemma", budget_s=30))

    # --- the nesting lemma takes every context of the nest to be its own object; the SAME object entered again inside itself
    #     (a recursive function decorated with fpu.context(...), or `with c: with c:`) is a nesting too: finite case, software register
    def reentrant_case():
        import functional_algorithms.fpu as F

        cell = [0x1F80]
        reg = F.MXCSRRegister()

        def _get(ref):
            ref._obj.value = cell[0]

        def _set(ref):
            cell[0] = ref._obj.value

        reg._get_mxcsr, reg._set_mxcsr = _get, _set
        c = reg(FZ=True, RN="up")
        try:
            with c:
                outer = cell[0]
                with c:
                    pass
                inner_restored = cell[0] == outer
        except BaseException as e:
            return False, dict(raised=repr(e), register_after=hex(cell[0]), register_before="0x1f80")
        return bool(inner_restored and cell[0] == 0x1F80), dict(register_after=hex(cell[0]))

    ok, det = reentrant_case()
    rep.add(core.decided("C18/nesting/same-context-object-entered-twice", PROP, ok, functions=("fpu.MXCSRRegister.__call__.context.__enter__", "fpu.MXCSRRegister.__call__.context.__exit__"), text="`with c: with c:` (one context object nested in itself) restores the register at both exits and does not raise", detail=det, meta=dict(case="reentrant", detail=det)))
    rep.replayers["C18/nesting/"] = lambda o: dict(replayed=True, witness_class="the same context object entered twice", detail=(o.meta or {}).get("detail"))

    # --- covers / canary
    s = z3.Solver()
    s.add(in_u32(M0), in_u32(M1), M0 != M1)
    rep.add(core.smt("C18/cover/precondition", PROP, s, text="cover: distinct creation/entry register values exist", expect="sat", kind="cover", budget_s=10))
    s = z3.Solver()
    s.add(in_u32(M1), ((((M1 & bv(~(1 << 15) & 0xFFFFFFFF)) | bv(1 << 14)) ^ M1) & bv(~(1 << 15) & 0xFFFFFFFF)) != 0)
    rep.add(core.smt("C18/canary/wrong-bit", PROP, s, text="canary: setting bit 14 is not within the FZ mask", expect="sat", kind="canary", budget_s=10))
    rep.replayers["C18/"] = native_replay
    return rep


def native_replay(o):
    """replay on the real class with a software register (the thunks replaced by a Python int cell)"""
    import ctypes

    import functional_algorithms.fpu as F

    meta = o.meta or {}
    if "FZ" not in meta:
        return dict(replayed=False, witness_class=None)
    m = o.model or {}
    M0 = (m.get("M0") or {}).get("value", 0x1F80) & 0xFFFFFFFF
    M1 = (m.get("M1") or {}).get("value", 0x9FA0) & 0xFFFFFFFF
    M2 = (m.get("M2") or {}).get("value", 0xFFFF) & 0xFFFFFFFF
    cell = [M0]
    reg = F.MXCSRRegister()  # the real __init__ (allocates the real thunks); the register cell is software

    def _get(ref):
        ref._obj.value = cell[0]

    def _set(ref):
        cell[0] = ref._obj.value

    reg._get_mxcsr = _get
    reg._set_mxcsr = _set
    mask, val = mask_value(meta["FZ"], meta["DAZ"], meta["RN"])
    info = dict(M_created=hex(M0), M_entry=hex(M1), mask=hex(mask))
    try:
        c = reg(FZ=meta["FZ"], DAZ=meta["DAZ"], RN=meta["RN"])
        desired0 = getattr(getattr(c, "desired_state", None), "value", None)
        cell[0] = M1
        c.__enter__()
        inside = cell[0]
        cell[0] = M2  # body: nested contexts read and change the register, then restore it
        reg.get_mxcsr(), reg.FZ, reg.DAZ, reg(FZ=True)
        cell[0] = inside
        if meta.get("exc_case") == "exception":
            ret = c.__exit__(ValueError, ValueError("boom"), None)
        else:
            ret = c.__exit__(None, None, None)
        after = cell[0]
        info.update(inside=hex(inside), after=hex(after), exit_returned=repr(ret))
        bad_enter = ((inside ^ M1) & ~mask & 0xFFFFFFFF) != 0 or (inside & mask) != val
        bad_exit = after != M1 or bool(ret)
        bad_call = desired0 is not None and desired0 != ((M0 & ~mask & 0xFFFFFFFF) | val) and "/call/" in o.id
        info["desired_at_creation"] = hex(desired0) if desired0 is not None else None
        info["replayed"] = bool(bad_enter or bad_exit or bad_call)
        info["witness_class"] = "entry-not-from-entry-value" if bad_enter else ("exit-not-restored" if bad_exit else ("call-bit-update" if bad_call else None))
    except Exception as e:
        info.update(replayed=True, raised=repr(e), witness_class="raises")
    return info


def main(tier, only=None):
    rep = build(tier)
    if only:
        rep.obls = [o for o in rep.obls if only in o.id]
    return rep.finish()


def replay(path):
    d = json.load(open(path))
    o = core.Obligation(id=d["obligation"], prop=PROP, model=d.get("model"), meta=d.get("meta") or {})
    info = native_replay(o)
    print(json.dumps(info, indent=1, default=str))
    return 1 if info.get("replayed") else 0
