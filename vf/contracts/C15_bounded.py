"""C15, BOUNDED STAND-IN (never counted as proved): the proof of utils.mpf2float replaces mpmath's `_normalize` by an
ASSUMED contract and the option plumbing is checked on finite cases.  Here the real code runs with the real mpmath:
  (1) `_normalize` itself against the contract the proof assumes;
  (2) mpf2float on directed multiprecision values (ties, near-ties, overflow threshold, half the smallest subnormal,
      precisions from p-1 to 4p bits) against an exact rational reference rounded once;
  (3) functions evaluated through vectorize_with_mpmath on float inputs (identity, negation, doubling - results exactly
      known): every float16 value, float32/float64 samples over all binades, subnormals preserved unless flushing.
"""
from __future__ import annotations

import multiprocessing as mp
import warnings
from fractions import Fraction

import numpy

from vf import core

TYPES = ("float16", "float32", "float64")
UINT = {"float16": numpy.uint16, "float32": numpy.uint32, "float64": numpy.uint64}


def job_mpf(arg):
    tn, seed, count = arg
    warnings.simplefilter("ignore")
    import mpmath

    import functional_algorithms.utils as U

    from vf.contracts.C11_bounded import rn

    t = getattr(numpy, tn)
    fi = numpy.finfo(t)
    p = fi.nmant + 1
    emin, emax = int(fi.minexp), int(fi.maxexp) - 1
    rng = numpy.random.default_rng(seed)
    fails = {}
    n = 0

    def rec(name, **kw):
        lst = fails.setdefault(name, [])
        if len(lst) < 3:
            lst.append({k: (v if isinstance(v, (str, int, list)) else repr(v)) for k, v in kw.items()})

    with mpmath.workprec(4 * p + 20), numpy.errstate(all="ignore"):
        ctx = mpmath.mp
        half_sub = Fraction(2) ** (emin - p)
        for _ in range(count):
            nb = [p - 1, p, p + 1, p + 2, 2 * p, 3 * p + 7][int(rng.integers(0, 6))]
            kind = int(rng.integers(0, 6))
            top = int(rng.integers(1 << (p - 1), 1 << p))
            if kind == 0:  # exact tie
                man = (top << 1) | 1
            elif kind == 1:  # just above / below a tie
                man = (((top << 1) | 1) << 40) + int(rng.integers(-2, 3))
            elif kind == 2:  # all ones (rounds up into the next binade)
                man = (1 << nb) - 1
            else:
                nbb = max(nb, 2)
                man = (1 << (nbb - 1)) | int.from_bytes(rng.bytes((nbb + 7) // 8), "little") % (1 << (nbb - 1))
            bl = man.bit_length()
            where = int(rng.integers(0, 5))
            if where == 0:  # overflow threshold
                e = emax + 1 - bl + int(rng.integers(-1, 2))
            elif where == 1:  # half the smallest subnormal and the subnormal range
                e = emin - p - bl + int(rng.integers(-1, 4))
            elif where == 2:  # smallest normal
                e = emin - bl + int(rng.integers(0, 3))
            else:
                e = int(rng.integers(emin - bl, emax - bl))
            sign = int(rng.integers(0, 2))
            v = Fraction(man) * Fraction(2) ** e
            v = -v if sign else v
            x = ctx.make_mpf(mpmath.libmp.from_man_exp(-man if sign else man, e))  # exact: no precision given
            n += 1
            # (1) the contract assumed for _normalize
            s0, m0, e0, b0 = x._mpf_
            sn, mn, en, bn = mpmath.libmp.libmpf._normalize(s0, m0, e0, b0, p, "n")
            want_p = None
            q = Fraction(2) ** (max(bl + e, -(10**9)) - p)
            k = round(abs(v) / q)  # ties to even
            want_p = k * q
            if Fraction(int(mn)) * Fraction(2) ** int(en) != want_p or sn != sign or (int(mn) and (int(mn) % 2 == 0 or int(bn) != int(mn).bit_length() or int(bn) > p)):
                rec("_normalize-contract", man=str(man), exp=e, got=[int(sn), str(int(mn)), int(en), int(bn)])
            # (2) mpf2float
            for flush in (False, True):
                r = U.mpf2float(t, x, flush_subnormals=flush)
                want = rn(t, v)
                ok = True
                if type(r) is not t or numpy.isnan(r):
                    ok = False
                elif abs(want_p) >= Fraction(2) ** (emax + 1):
                    ok = bool(numpy.isinf(r)) and bool(numpy.signbit(r)) == bool(sign)
                elif abs(want_p) >= Fraction(2) ** emin:
                    ok = r.tobytes() == want.tobytes()  # the nearest float is normal (or the largest)
                elif flush or abs(want_p) < half_sub:
                    ok = r == 0 and bool(numpy.signbit(r)) == bool(sign)
                elif Fraction(float(want)) == v:
                    ok = r.tobytes() == want.tobytes()  # a representable subnormal is preserved
                elif half_sub < abs(v) < 2 * half_sub:
                    ok = r.tobytes() == want.tobytes()  # above half the smallest subnormal: not a zero
                if not ok:
                    rec("mpf2float[flush=%s]" % flush, man=str(man), exp=e, sign=sign, got=r, want=want)
        # (3) subnormal results: one rounding, into the subnormal grid (values a hair below / above a tie of that grid, which
        # rounding to p bits first would move onto the tie)
        sub = Fraction(2) ** (emin - p + 1)
        for k in list(range(0, 40)) + [(1 << (p - 2)) - 1, (1 << (p - 1)) - 2]:
            for delta in (-1, 1):
                for sign in (0, 1):
                    man = (((k << 1) | 1) << (p + 8)) + delta
                    e = (emin - p + 1) - 1 - (p + 8)
                    v = Fraction(man) * Fraction(2) ** e
                    v = -v if sign else v
                    x = ctx.make_mpf(mpmath.libmp.from_man_exp(-man if sign else man, e))
                    r = U.mpf2float(t, x, flush_subnormals=False)
                    want = rn(t, v)
                    n += 1
                    if type(r) is not t or r.tobytes() != want.tobytes():
                        rec("mpf2float-subnormal-result[flush=False]", man=str(man), exp=e, sign=sign, got=r, want=want, units="(%d + 1/2) %s 2^-%d smallest subnormals" % (k, "+" if delta > 0 else "-", p + 9))
    return tn, "mpf", n, fails


def job_backend(arg):
    tn, chunk = arg
    warnings.simplefilter("ignore")
    import functional_algorithms.utils as U

    t = getattr(numpy, tn)
    fi = numpy.finfo(t)
    fails = {}
    n = 0

    def rec(name, **kw):
        lst = fails.setdefault(name, [])
        if len(lst) < 3:
            lst.append({k: (v if isinstance(v, (str, int, list)) else repr(v)) for k, v in kw.items()})

    funcs = {"identity": (lambda x: x, lambda x: x), "negate": (lambda x: -x, lambda x: -x), "double": (lambda x: x + x, lambda x: x + x)}
    vs = {}
    for name, (f, _) in funcs.items():
        for flush in ("unspecified", False, True):
            kw = {} if flush == "unspecified" else dict(flush_subnormals=flush)
            vs[(name, flush)] = U.vectorize_with_mpmath(f, **kw)
    with numpy.errstate(all="ignore"):
        for bits in chunk:
            x = UINT[tn](bits).view(t)
            n += 1
            for (name, flush), v in vs.items():
                want = funcs[name][1](x)
                r = numpy.asarray(v(x))  # numpy.vectorize returns a 0-d array for a scalar argument
                sub = want != 0 and abs(want) < fi.smallest_normal
                if numpy.isnan(want):
                    ok = bool(numpy.isnan(r))
                elif flush is True and sub:
                    ok = r == 0
                elif want == 0:
                    ok = r == 0  # mpf has no signed zero
                else:
                    ok = r.dtype == numpy.dtype(t) and r.shape == () and r.tobytes() == want.tobytes()
                if not ok:
                    rec("backend[%s,flush=%s]" % (name, flush), x=x, got=r, want=want)
    return tn, "backend", n, fails


def protocol_cases():
    """finite cases of the call protocol: option namespaces used one after the other, array layouts, signed-zero inputs,
    correct rounding of functions whose exact value is known"""
    warnings.simplefilter("ignore")
    import functional_algorithms.utils as U

    from vf.contracts.C11_bounded import rn
    from fractions import Fraction

    out = {}

    def rec(name, **kw):
        out.setdefault(name, []).append({k: (v if isinstance(v, (str, int, list)) else repr(v)) for k, v in kw.items()})

    names = ["namespace-options-are-per-instance", "array-layout", "signed-zero-input", "correct-rounding[square,default-options]", "correct-rounding[square,extra_prec=1]", "correct-rounding[exp2-at-integers,default-options]", "correct-rounding[sqrt-of-largest,extra-precision]"]
    for nm in names:
        out[nm] = []
    with numpy.errstate(all="ignore"):
        # (a) numpy_with_mpmath namespaces: each instance applies ITS options, whatever was used before in the process
        sub = numpy.float32(1e-40)
        for first, second in ((True, False), (False, True)):
            r1 = numpy.asarray(U.numpy_with_mpmath(flush_subnormals=first).negative(sub))
            r2 = numpy.asarray(U.numpy_with_mpmath(flush_subnormals=second).negative(sub))
            for fl, r in ((first, r1), (second, r2)):
                want_zero = bool(fl)
                if bool(r == 0) != want_zero:
                    rec("namespace-options-are-per-instance", order="flush_subnormals=%s then %s" % (first, second), flush=fl, got=r)
        for mults in ((0, 3), (3, 0)):
            vs = [U.numpy_with_mpmath(extra_prec_multiplier=m).exp2 for m in mults]
            for m, v in zip(mults, vs):
                if v.extra_prec_multiplier != m:
                    rec("namespace-options-are-per-instance", order="extra_prec_multiplier=%s then %s" % mults, asked=m, got=v.extra_prec_multiplier)
        # (b) array layouts: result[i, j] is the function of input[i, j]
        v = U.vectorize_with_mpmath(lambda x: x + x, flush_subnormals=False)
        base = numpy.arange(1, 13, dtype=numpy.float32).reshape(3, 4) / numpy.float32(8)
        for label, arr in (("C-order", base), ("transposed view", base.T), ("Fortran order", numpy.asfortranarray(base)), ("strided view", base[:, ::2]), ("swapaxes of 3-D", numpy.arange(24, dtype=numpy.float32).reshape(2, 3, 4).swapaxes(0, 2))):
            try:
                r = numpy.asarray(v(arr))
                if r.shape != arr.shape or not numpy.array_equal(r, arr + arr):
                    rec("array-layout", layout=label, got=r.tolist(), want=(arr + arr).tolist())
            except Exception as e:
                rec("array-layout", layout=label, raised=repr(e)[:200])
        # (c) signed zeros are inputs too
        for tn in TYPES:
            t = getattr(numpy, tn)
            ns = U.numpy_with_mpmath(flush_subnormals=False)
            r = numpy.asarray(ns.negative(t(0.0)))
            if not numpy.signbit(r):
                rec("signed-zero-input", t=tn, call="negative(+0.0)", got=r, want="-0.0")
            r = numpy.asarray(ns.arctan2(t(-0.0), t(-1.0)))
            if not (r < 0):
                rec("signed-zero-input", t=tn, call="arctan2(-0.0, -1.0)", got=r, want="-pi")
        # (d) correct rounding where the exact value is known
        rng = numpy.random.default_rng(core.SEED)
        for tn in TYPES:
            t = getattr(numpy, tn)
            for label, kw in (("correct-rounding[square,default-options]", {}), ("correct-rounding[square,extra_prec=1]", dict(extra_prec=1))):
                sq = U.numpy_with_mpmath(flush_subnormals=False, **kw).square
                bad = 0
                for _ in range(400):
                    x = t(rng.uniform(0.5, 2.0)) * t(2.0) ** int(rng.integers(-6, 6))
                    want = rn(t, Fraction(float(x)) ** 2)
                    r = numpy.asarray(sq(x))
                    if r.tobytes() != want.tobytes():
                        bad += 1
                        if bad <= 2:
                            rec(label, t=tn, x=x, got=r, want=want)
            e2 = U.numpy_with_mpmath(flush_subnormals=False).exp2
            fi = numpy.finfo(t)
            for k in (1, 10, int(fi.maxexp) - 1, int(fi.minexp) + 1, -3):
                r = numpy.asarray(e2(t(k)))
                want = numpy.ldexp(t(1), k)
                if r.tobytes() != want.tobytes():
                    rec("correct-rounding[exp2-at-integers,default-options]", t=tn, x=k, got=r, want=want)
            # the value is first rounded to prec + extra bits and then to prec bits: sqrt(largest) sits a hair below a midpoint
            big = t(fi.max)
            for kw in (dict(extra_prec=1), dict(extra_prec=10), dict(extra_prec_multiplier=1)):
                r = numpy.asarray(U.numpy_with_mpmath(flush_subnormals=False, **kw).sqrt(big)).astype(t)[()]
                lo, hi = numpy.nextafter(r, t(0)), numpy.nextafter(r, t(numpy.inf))
                F = lambda v: Fraction(float(v))
                nearest = ((F(r) + F(lo)) / 2) ** 2 < F(big) < ((F(r) + F(hi)) / 2) ** 2
                if not nearest:
                    rec("correct-rounding[sqrt-of-largest,extra-precision]", t=tn, options=repr(kw), got=r, neighbours=[repr(lo), repr(hi)])
    return out


def run(rep, tier, prop="C15"):
    from vf.contracts.C13 import sample_bits

    rnd = numpy.random.default_rng(core.SEED)
    per = 4000 if tier == "quick" else 40000
    jobs_m = [(tn, core.SEED * 49979687 + 13 * k + sum(map(ord, tn)), per // 4) for tn in TYPES for k in range(4)]
    jobs_b = []
    for tn in TYPES:
        bits = sample_bits(getattr(numpy, tn), tier, rnd)
        if tn != "float16":
            bits = bits[:: (4 if tier == "quick" else 1)]
        elif tier == "quick":
            bits = bits[::4] + list(range(0, 1 << 16, 1 << 10)) + list(range(0, 2048)) + list(range(0x8000, 0x8000 + 2048)) + list(range(0x7BF0, 0x7C10)) + list(range(0xFBF0, 0xFC10))
        k = max(1, len(bits) // (core.NPROC * 2))
        for i in range(0, len(bits), k):
            jobs_b.append((tn, bits[i : i + k]))
    agg, seen = {}, {}
    with mp.get_context("fork").Pool(core.NPROC) as pool:
        for res in (pool.imap_unordered(job_mpf, jobs_m), pool.imap_unordered(job_backend, jobs_b)):
            for tn, what, n, fails in res:
                seen[(tn, what)] = seen.get((tn, what), 0) + n
                for name, lst in fails.items():
                    agg.setdefault((tn, name), []).extend(lst)
    names = [("mpf", "_normalize-contract"), ("mpf", "mpf2float[flush=False]"), ("mpf", "mpf2float[flush=True]"), ("mpf", "mpf2float-subnormal-result[flush=False]")]
    names += [("backend", "backend[%s,flush=%s]" % (f, fl)) for f in ("identity", "negate", "double") for fl in ("unspecified", False, True)]
    for tn in TYPES:
        for what, name in names:
            lst = agg.get((tn, name), [])
            fnname = {"_normalize-contract": "mpmath.libmp.libmpf._normalize"}.get(name, "utils.mpf2float" if what == "mpf" else "utils.vectorize_with_mpmath")
            rep.add(core.decided("%s/bounded/%s/%s" % (prop, name, tn), prop, not lst and seen.get((tn, what), 0) > 0, functions=(fnname,), text="bounded stand-in: %s on %d inputs" % (name, seen.get((tn, what), 0)), detail=dict(failures=lst[:3], inputs=seen.get((tn, what), 0)), kind="bounded", solver="native-run", meta=dict(part="bounded", fails=lst[:3], t=tn, name=name)))
    try:
        pc = protocol_cases()
    except Exception:
        import traceback

        pc = {"protocol-engine": [dict(raised=traceback.format_exc()[-600:])]}
    for name, lst in pc.items():
        rep.add(core.decided("%s/bounded/protocol/%s" % (prop, name), prop, not lst, functions=("utils.numpy_with_mpmath.__getattr__" if name.startswith("namespace") else "utils.vectorize_with_mpmath",), text="bounded stand-in (finite cases): %s" % name, detail=dict(failures=lst[:4]), kind="bounded", solver="native-run", meta=dict(part="bounded", fails=lst[:4], t="-", name="protocol/" + name)))
    rep.bounded.append(dict(what="real mpmath: _normalize against the contract assumed by the proof; mpf2float on directed multiprecision values against an exact reference; identity / negation / doubling through vectorize_with_mpmath for the three flush settings", bound="%d directed mpf values per format; every float16 value (thorough; a quarter plus the boundary ranges in the quick tier), float32/float64 samples over every exponent-field value" % per, counted_as_proved=False))


def replay(o):
    meta = o.meta or {}
    if meta.get("part") != "bounded":
        return None
    fails = meta.get("fails") or []
    return dict(replayed=bool(fails), failing_inputs=fails, witness_class=("%s %s" % (meta.get("name"), meta.get("t"))) if meta.get("t") != "-" else str(meta.get("name")))
