"""C15, BOUNDED STAND-IN (never counted as proved): the proof of utils.mpf2float replaces mpmath's `_normalize` by an
ASSUMED contract and the option plumbing is checked on finite cases.  Here the real code runs with the real mpmath:
  (1) `_normalize` itself against the contract the proof assumes;
  (2) mpf2float on directed multiprecision values (ties, near-ties, overflow threshold, half the smallest subnormal,
      precisions from p-1 to 4p bits) against an exact rational reference rounded once;
  (3) functions evaluated through vectorize_with_mpmath on float inputs (identity, negation, doubling - results exactly
      known): every float16 value, float32/float64 samples over all binades, subnormals preserved unless flushing.
"""
from __future__ import annotations

import multiprocessing as mp
import warnings
from fractions import Fraction

import numpy

from vf import core

TYPES = ("float16", "float32", "float64")
UINT = {"float16": numpy.uint16, "float32": numpy.uint32, "float64": numpy.uint64}


def job_mpf(arg):
    tn, seed, count = arg
    warnings.simplefilter("ignore")
    import mpmath

    import functional_algorithms.utils as U

    from vf.contracts.C11_bounded import rn

    t = getattr(numpy, tn)
    fi = numpy.finfo(t)
    p = fi.nmant + 1
    emin, emax = int(fi.minexp), int(fi.maxexp) - 1
    rng = numpy.random.default_rng(seed)
    fails = {}
    n = 0

    def rec(name, **kw):
        lst = fails.setdefault(name, [])
        if len(lst) < 3:
            lst.append({k: (v if isinstance(v, (str, int, list)) else repr(v)) for k, v in kw.items()})

    with mpmath.workprec(4 * p + 20), numpy.errstate(all="ignore"):
        ctx = mpmath.mp
        half_sub = Fraction(2) ** (emin - p)
        for _ in range(count):
            nb = [p - 1, p, p + 1, p + 2, 2 * p, 3 * p + 7][int(rng.integers(0, 6))]
            kind = int(rng.integers(0, 6))
            top = int(rng.integers(1 << (p - 1), 1 << p))
            if kind == 0:  # exact tie
                man = (top << 1) | 1
            elif kind == 1:  # just above / below a tie
                man = (((top << 1) | 1) << 40) + int(rng.integers(-2, 3))
            elif kind == 2:  # all ones (rounds up into the next binade)
                man = (1 << nb) - 1
            else:
                nbb = max(nb, 2)
                man = (1 << (nbb - 1)) | int.from_bytes(rng.bytes((nbb + 7) // 8), "little") % (1 << (nbb - 1))
            bl = man.bit_length()
            where = int(rng.integers(0, 5))
            if where == 0:  # overflow threshold
                e = emax + 1 - bl + int(rng.integers(-1, 2))
            elif where == 1:  # half the smallest subnormal and the subnormal range
                e = emin - p - bl + int(rng.integers(-1, 4))
            elif where == 2:  # smallest normal
                e = emin - bl + int(rng.integers(0, 3))
            else:
                e = int(rng.integers(emin - bl, emax - bl))
            sign = int(rng.integers(0, 2))
            v = Fraction(man) * Fraction(2) ** e
            v = -v if sign else v
            x = ctx.make_mpf(mpmath.libmp.from_man_exp(-man if sign else man, e))  # exact: no precision given
            n += 1
            # (1) the contract assumed for _normalize
            s0, m0, e0, b0 = x._mpf_
            sn, mn, en, bn = mpmath.libmp.libmpf._normalize(s0, m0, e0, b0, p, "n")
            want_p = None
            q = Fraction(2) ** (max(bl + e, -(10**9)) - p)
            k = round(abs(v) / q)  # ties to even
            want_p = k * q
            if Fraction(int(mn)) * Fraction(2) ** int(en) != want_p or sn != sign or (int(mn) and (int(mn) % 2 == 0 or int(bn) != int(mn).bit_length() or int(bn) > p)):
                rec("_normalize-contract", man=str(man), exp=e, got=[int(sn), str(int(mn)), int(en), int(bn)])
            # (2) mpf2float
            for flush in (False, True):
                r = U.mpf2float(t, x, flush_subnormals=flush)
                want = rn(t, v)
                ok = True
                if type(r) is not t or numpy.isnan(r):
                    ok = False
                elif abs(want_p) >= Fraction(2) ** (emax + 1):
                    ok = bool(numpy.isinf(r)) and bool(numpy.signbit(r)) == bool(sign)
                elif abs(want_p) >= Fraction(2) ** emin:
                    ok = r.tobytes() == want.tobytes()  # the nearest float is normal (or the largest)
                elif flush or abs(want_p) < half_sub:
                    ok = r == 0 and bool(numpy.signbit(r)) == bool(sign)
                elif Fraction(float(want)) == v:
                    ok = r.tobytes() == want.tobytes()  # a representable subnormal is preserved
                if not ok:
                    rec("mpf2float[flush=%s]" % flush, man=str(man), exp=e, sign=sign, got=r, want=want)
    return tn, "mpf", n, fails


def job_backend(arg):
    tn, chunk = arg
    warnings.simplefilter("ignore")
    import functional_algorithms.utils as U

    t = getattr(numpy, tn)
    fi = numpy.finfo(t)
    fails = {}
    n = 0

    def rec(name, **kw):
        lst = fails.setdefault(name, [])
        if len(lst) < 3:
            lst.append({k: (v if isinstance(v, (str, int, list)) else repr(v)) for k, v in kw.items()})

    funcs = {"identity": (lambda x: x, lambda x: x), "negate": (lambda x: -x, lambda x: -x), "double": (lambda x: x + x, lambda x: x + x)}
    vs = {}
    for name, (f, _) in funcs.items():
        for flush in ("unspecified", False, True):
            kw = {} if flush == "unspecified" else dict(flush_subnormals=flush)
            vs[(name, flush)] = U.vectorize_with_mpmath(f, **kw)
    with numpy.errstate(all="ignore"):
        for bits in chunk:
            x = UINT[tn](bits).view(t)
            n += 1
            for (name, flush), v in vs.items():
                want = funcs[name][1](x)
                r = numpy.asarray(v(x))  # numpy.vectorize returns a 0-d array for a scalar argument
                sub = want != 0 and abs(want) < fi.smallest_normal
                if numpy.isnan(want):
                    ok = bool(numpy.isnan(r))
                elif flush is True and sub:
                    ok = r == 0
                elif want == 0:
                    ok = r == 0  # mpf has no signed zero
                else:
                    ok = r.dtype == numpy.dtype(t) and r.shape == () and r.tobytes() == want.tobytes()
                if not ok:
                    rec("backend[%s,flush=%s]" % (name, flush), x=x, got=r, want=want)
    return tn, "backend", n, fails


def run(rep, tier, prop="C15"):
    from vf.contracts.C13 import sample_bits

    rnd = numpy.random.default_rng(core.SEED)
    per = 4000 if tier == "quick" else 40000
    jobs_m = [(tn, core.SEED * 49979687 + 13 * k + sum(map(ord, tn)), per // 4) for tn in TYPES for k in range(4)]
    jobs_b = []
    for tn in TYPES:
        bits = sample_bits(getattr(numpy, tn), tier, rnd)
        if tn != "float16":
            bits = bits[:: (4 if tier == "quick" else 1)]
        elif tier == "quick":
            bits = bits[::4] + list(range(0, 1 << 16, 1 << 10)) + list(range(0, 2048)) + list(range(0x8000, 0x8000 + 2048)) + list(range(0x7BF0, 0x7C10)) + list(range(0xFBF0, 0xFC10))
        k = max(1, len(bits) // (core.NPROC * 2))
        for i in range(0, len(bits), k):
            jobs_b.append((tn, bits[i : i + k]))
    agg, seen = {}, {}
    with mp.get_context("fork").Pool(core.NPROC) as pool:
        for res in (pool.imap_unordered(job_mpf, jobs_m), pool.imap_unordered(job_backend, jobs_b)):
            for tn, what, n, fails in res:
                seen[(tn, what)] = seen.get((tn, what), 0) + n
                for name, lst in fails.items():
                    agg.setdefault((tn, name), []).extend(lst)
    names = [("mpf", "_normalize-contract"), ("mpf", "mpf2float[flush=False]"), ("mpf", "mpf2float[flush=True]")]
    names += [("backend", "backend[%s,flush=%s]" % (f, fl)) for f in ("identity", "negate", "double") for fl in ("unspecified", False, True)]
    for tn in TYPES:
        for what, name in names:
            lst = agg.get((tn, name), [])
            fnname = {"_normalize-contract": "mpmath.libmp.libmpf._normalize"}.get(name, "utils.mpf2float" if what == "mpf" else "utils.vectorize_with_mpmath")
            rep.add(core.decided("%s/bounded/%s/%s" % (prop, name, tn), prop, not lst and seen.get((tn, what), 0) > 0, functions=(fnname,), text="bounded stand-in: %s on %d inputs" % (name, seen.get((tn, what), 0)), detail=dict(failures=lst[:3], inputs=seen.get((tn, what), 0)), kind="bounded", solver="native-run", meta=dict(part="bounded", fails=lst[:3], t=tn, name=name)))
    rep.bounded.append(dict(what="real mpmath: _normalize against the contract assumed by the proof; mpf2float on directed multiprecision values against an exact reference; identity / negation / doubling through vectorize_with_mpmath for the three flush settings", bound="%d directed mpf values per format; every float16 value (thorough; a quarter plus the boundary ranges in the quick tier), float32/float64 samples over every exponent-field value" % per, counted_as_proved=False))


def replay(o):
    meta = o.meta or {}
    if meta.get("part") != "bounded":
        return None
    fails = meta.get("fails") or []
    return dict(replayed=bool(fails), failing_inputs=fails, witness_class="%s %s" % (meta.get("name"), meta.get("t")))
