"""C03, BOUNDED STAND-IN (never counted as proved): every identity of the check - the claimed ones and, above all, the ones
whose abstract proof is out of reach (conj symmetry of the log family and atanh, oddness of atan / atanh, evenness of
square) - evaluated natively, bit for bit, on the function the package's own NumPy pipeline generates from the expanded
graph, over a lattice of special points (axes-adjacent values, diagonals, circles of radius about 1 around 0, +-1 and +-i,
powers of two, extremes) and seeded log-uniform points, at float32 and float64.
"""
from __future__ import annotations

import multiprocessing as mp
import traceback
import warnings

import numpy

from vf import core

CT = {"float32": numpy.complex64, "float64": numpy.complex128}
COMPLEX_FUNCS = ["absolute", "acos", "acosh", "asin", "asinh", "atan", "atanh", "exp", "log", "log1p", "log2", "log10", "sqrt", "square"]


def identity_list():
    out = [("conj", k) for k in COMPLEX_FUNCS]
    out += [("odd", k) for k in ("asin", "asinh", "atan", "atanh")]
    out += [("even", "square"), ("rot", "asinh"), ("rot", "atan"), ("rot", "acosh"), ("imag-acos-asin", "acos")]
    return out


def points(t, rng, count):
    fi = numpy.finfo(t)
    eps = float(fi.eps)
    vals = [1.0, 0.5, 2.0, 1.5, 0.25, 3.0, 10.430907, 1e-3, 1e3, 0.28, 0.7, 1 + eps, 1 - eps / 2, 1 + 4 * eps, float(fi.tiny), float(fi.tiny) * 8, float(numpy.sqrt(fi.max)) / 8, float(fi.max) / 4, float(numpy.sqrt(fi.tiny)) * 4, 2.0**-12, 2.0**12]
    pts = []
    for a in vals:
        for b in vals:
            pts += [(a, b), (-a, b), (a, -b), (-a, -b)]
    # circles of radius about 1 around 0, +-1, +-i (region boundaries of log1p, atanh, asin ...)
    for c in (0j, 1 + 0j, -1 + 0j, 1j, -1j):
        for r in (1.0, 1 + 8 * eps, 1 - 8 * eps, 1.001, 0.999, 0.5, 2.0, 1e-3):
            for th in numpy.linspace(0.05, 2 * numpy.pi - 0.05, 48):
                z = c + r * numpy.exp(1j * th)
                pts.append((z.real, z.imag))
    for _ in range(count):
        mode = int(rng.integers(0, 3))
        if mode == 0:
            a, b = 10.0 ** rng.uniform(-6, 6), 10.0 ** rng.uniform(-6, 6)
        elif mode == 1:
            lim = numpy.log10(float(fi.max)) - 1
            a, b = 10.0 ** rng.uniform(-lim, lim), 10.0 ** rng.uniform(-lim, lim)
        else:
            a = 10.0 ** rng.uniform(-3, 3)
            b = a * (1 + int(rng.integers(-3, 4)) * eps)
        pts.append((a if rng.integers(0, 2) else -a, b if rng.integers(0, 2) else -b))
    out = []
    with numpy.errstate(all="ignore"):
        for a, b in pts:
            x, y = t(a), t(b)
            if numpy.isfinite(x) and numpy.isfinite(y) and y != 0 and x != 0:
                out.append((x, y))
    return out


def job(arg, explicit_points=None):
    tname, kind, name, seed, count = arg
    warnings.simplefilter("ignore")
    from functional_algorithms import targets

    from vf import dagfp

    t = getattr(numpy, tname)
    ct = CT[tname]
    cache = {}

    def fn(nm):
        if nm not in cache:
            cache[nm] = targets.numpy.as_function(dagfp.expand(nm, (ct,)), debug=0)
        return cache[nm]

    def Z(a, b):
        r = numpy.empty(1, dtype=ct)
        r.real[0], r.imag[0] = a, b
        return r[0]

    def bits(v):
        v = ct(v)
        f = lambda q: "nan" if numpy.isnan(q) else t(q).tobytes().hex()  # noqa
        return (f(v.real), f(v.imag))

    fails = []
    n = 0
    try:
        f = fn(name)
        pts = explicit_points if explicit_points is not None else points(t, numpy.random.default_rng(seed), count)
        with numpy.errstate(all="ignore"):
            for x, y in pts:
                n += 1
                if kind == "conj":
                    a, b = f(Z(x, y)), f(Z(x, -y))
                    want = Z(a.real, -a.imag) if isinstance(a, numpy.complexfloating) else a
                    ok = bits(b) == bits(want)
                elif kind in ("odd", "even"):
                    a, b = f(Z(x, y)), f(Z(-x, -y))
                    want = Z(-a.real, -a.imag) if kind == "odd" else a
                    ok = bits(b) == bits(want)
                elif kind == "rot" and name in ("asinh", "atan"):
                    w = fn({"asinh": "asin", "atan": "atanh"}[name])(Z(-y, x))
                    a = f(Z(x, y))
                    ok = bits(a) == bits(Z(w.imag, -w.real))
                elif kind == "rot":
                    w = fn("acos")(Z(x, y))
                    a = f(Z(x, y))
                    ok = bits(a) == bits(Z(-w.imag, w.real) if not (y < 0) else Z(w.imag, -w.real))
                else:
                    a, w = f(Z(x, y)), fn("asin")(Z(x, y))
                    ok = bits(Z(0, a.imag))[1] == bits(Z(0, -w.imag))[1]
                if not ok and len(fails) < 3:
                    fails.append(dict(x=repr(x), y=repr(y), value=repr(a)))
    except Exception:
        return tname, kind, name, n, fails, traceback.format_exc()[-800:]
    return tname, kind, name, n, fails, None


def special_job(arg):
    """identities at the points the main lattice leaves out: zero components off the branch cuts, NaN components, and the
    real-valued algorithms"""
    tname = arg
    warnings.simplefilter("ignore")
    from functional_algorithms import targets

    from vf import dagfp

    t = getattr(numpy, tname)
    ct = CT[tname]
    out = {}

    def rec(name, **kw):
        out.setdefault(name, []).append(kw)

    def Z(a, b):
        r = numpy.empty(1, dtype=ct)
        r.real[0], r.imag[0] = a, b
        return r[0]

    def bits(v):
        v = ct(v)
        f = lambda q: "nan" if numpy.isnan(q) else t(q).tobytes().hex()  # noqa
        return (f(v.real), f(v.imag))

    with numpy.errstate(all="ignore"):
        # oddness at signed zeros OFF the branch cuts (|component| < 1 keeps clear of every cut)
        for name in ("asin", "asinh", "atan", "atanh"):
            key = "odd[zero-component-off-the-cut]/%s" % name
            out.setdefault(key, [])
            try:
                f = targets.numpy.as_function(dagfp.expand(name, (ct,)), debug=0)
                for x, y in ((0.5, 0.0), (0.5, -0.0), (-0.5, 0.0), (0.0, 0.5), (-0.0, 0.5), (0.0, -0.5), (0.25, 0.0), (0.0, 0.25)):
                    a, b = f(Z(t(x), t(y))), f(Z(t(-x), t(-y)))
                    if bits(b) != bits(Z(-a.real, -a.imag)):
                        rec(key, x=repr(x), y=repr(y), f_z=repr(a), f_minus_z=repr(b))
            except Exception as e:
                rec(key, raised=repr(e)[:200])
        # conj symmetry with a NaN component (NaN matches NaN)
        for name in ("asin", "acos", "asinh", "acosh", "atan", "atanh", "sqrt", "log", "exp"):
            key = "conj[nan-component]/%s" % name
            out.setdefault(key, [])
            try:
                f = targets.numpy.as_function(dagfp.expand(name, (ct,)), debug=0)
                for x, y in ((1e30, numpy.nan), (0.5, numpy.nan), (-2.0, numpy.nan)):
                    a, b = f(Z(t(x), t(y))), f(Z(t(x), -t(y)))
                    if bits(b) != bits(Z(a.real, -a.imag)):
                        rec(key, x=repr(x), y="nan", f_z=repr(a), f_conj_z=repr(b))
            except Exception as e:
                rec(key, raised=repr(e)[:200])
        # the real-valued algorithms are odd too, bit for bit (signed zero included)
        for name in ("asin", "asinh", "atan", "atanh"):
            key = "odd[real]/%s" % name
            out.setdefault(key, [])
            try:
                f = targets.numpy.as_function(dagfp.expand(name, (t,)), debug=0)
                fi = numpy.finfo(t)
                for x in (0.0, 0.5, 0.25, 1.0, float(fi.tiny), float(fi.smallest_subnormal), 1e-3, 0.9999, 3.0, 1e10, float(fi.max), numpy.inf):
                    if name in ("asin", "atanh") and abs(x) > 1:
                        continue
                    a, b = t(f(t(x))), t(f(t(-x)))
                    if not ((numpy.isnan(a) and numpy.isnan(b)) or (-a).tobytes() == b.tobytes()):
                        rec(key, x=repr(x), f_x=repr(a), f_minus_x=repr(b))
            except NotImplementedError:
                continue
            except Exception as e:
                rec(key, raised=repr(e)[:200])
    return tname, out


def run(rep, tier, prop="C03"):
    count = 1500 if tier == "quick" else 20000
    jobs = []
    for tname in ("float32", "float64"):
        for kind, name in identity_list():
            jobs.append((tname, kind, name, core.SEED * 15485863 + sum(map(ord, tname + kind + name)), count))
    with mp.get_context("fork").Pool(core.NPROC) as pool:
        res = list(pool.imap_unordered(job, jobs))
    for tname, kind, name, n, fails, err in sorted(res, key=lambda r: (r[0], r[1], r[2])):
        oid = "%s/bounded/%s/%s/%s" % (prop, kind, name, tname)
        if err:
            rep.add(core.decided(oid, prop, core.ERROR, functions=("algorithms.%s" % name,), text=err, kind="bounded"))
            continue
        rep.add(core.decided(oid, prop, not fails, functions=("algorithms.%s" % name,), text="bounded stand-in: %s identity of %s, bit for bit, on %d points with non-zero components" % (kind, name, n), detail=dict(failures=fails, inputs=n), kind="bounded", solver="native-run", meta=dict(part="bounded", fails=fails, t=tname, identity=kind, func=name)))
    with mp.get_context("fork").Pool(2) as pool:
        sres = pool.map(special_job, ["float32", "float64"])
    for tname, out in sres:
        for key, lst in sorted(out.items()):
            fam, name = key.split("/")
            rep.add(core.decided("%s/bounded/%s/%s/%s" % (prop, fam, name, tname), prop, not lst, functions=("algorithms.%s" % name,), text="bounded stand-in: %s of %s at the points the main lattice leaves out" % (fam, name), detail=dict(failures=lst[:4]), kind="bounded", solver="native-run", meta=dict(part="bounded", fails=lst[:4], t=tname, identity=fam, func=name, special=True)))
    rep.bounded.append(dict(what="every identity of the check (claimed or not) evaluated bit for bit on the NumPy function generated from the expanded graph", bound="float32 and float64; a lattice of about 3400 special points (diagonals, circles of radius ~1 around 0, +-1, +-i, powers of two, extremes) plus %d seeded points per identity; components non-zero" % count, counted_as_proved=False))


def rerun(meta):
    """evaluate the identity again, natively, on the recorded failing points"""
    t = getattr(numpy, meta["t"])
    pts = [(eval(f["x"], {"np": numpy}), eval(f["y"], {"np": numpy})) for f in meta.get("fails") or []]
    pts = [(t(a), t(b)) for a, b in pts]
    if not pts:
        return []
    return job((meta["t"], meta["identity"], meta["func"], 0, 0), explicit_points=pts)[4]


def replay(o):
    meta = o.meta or {}
    if meta.get("part") != "bounded":
        return None
    fails = meta.get("fails") or []
    if meta.get("special"):
        return dict(replayed=bool(fails), failing_inputs=fails, witness_class=str(meta.get("identity")))
    return dict(replayed=bool(fails), failing_inputs=fails, witness_class="%s %s %s" % (meta.get("identity"), meta.get("func"), meta.get("t")))
