"""C04 - rewriting never changes what an expression denotes (local soundness of every rule, table row and
inference case; composition by congruence).  See DESIGN.md section 4 C04 and vf/symexpr.py (E3).

Functions under contract:
  rewrite.Rewriter.<kind method>           M(e) = r != None  =>  [[r]] = [[e]]   (Real clause and FP clause)
  rewrite._constant_relop_constant / _constant_relop_any / _any_relop_any   every non-None entry is a closed fact
  expr.Expr._is_zero/_is_nonzero/_is_finite/_is_nonnegative/_is_nonpositive/_is_positive/_is_negative/_is
                                           answer True => P([[e]]), False => not P([[e]])
  expr.Expr.rewrite (memoised traversal)   with the modifier and the recursive calls replaced by their contract
"""
from __future__ import annotations

import json
import multiprocessing as mp
import time
import traceback
import types

import numpy
import z3

from vf import core, denote, symexpr, symrun
from vf.symexpr import SIG, Prune, World, explore, hole_class, new_hole

PROP = "C04"
MODES = ["real", "fp32", "fp64py"]
FINFO = {}


def finfo_table(t):
    fi = numpy.finfo(t)
    return dict(eps=fi.eps, largest=fi.max, smallest=fi.smallest_normal, smallest_subnormal=fi.smallest_subnormal, pi=t(numpy.pi))


def make_sem(w):
    def leaf(e, sem):
        if getattr(e, "_vf_leaf", False):
            return w.value_var(e)
        # a real symbol: variable by name, typed by its Type
        t = e.operands[1]
        name = "s_" + str(e.operands[0])
        if t.kind == "boolean":
            return z3.Bool(name)
        if w.mode == "real":
            return z3.Real(name)
        return z3.FP(name, z3.FPSort(*w.fmt()))

    if w.mode == "real":
        return denote.RealSem(leaf)
    eb, sb = w.fmt()
    t = {(8, 24): numpy.float32, (5, 11): numpy.float16, (11, 53): numpy.float64}[(eb, sb)]
    return denote.FPSem(leaf, eb, sb, finfo_table(t))


def leaf_facts(w, sem):
    out = []
    if w.mode != "real":
        for h in w.holes:
            if h.ty == "F" and h._state != "refined":
                out.append(z3.Not(z3.fpIsNaN(w.value_var(h))))
    return out


def path_vc(po, inp, out):
    """SMT script: hyps AND defined(inp) AND NOT (defined(out) AND same)   -- unsat = sound on this path"""
    w = po.w
    sem = make_sem(w)
    vin, din = sem.collect(inp)
    vout, dout = sem.collect(out)
    s = z3.Solver()
    for h in w.hyps:
        s.add(h)
    for c in getattr(w, "sym_pc", []):
        s.add(c)
    for c in po.eng.assumptions:
        s.add(c)
    for a in sem.axioms:
        s.add(a)
    for f in leaf_facts(w, sem):
        s.add(f)
    for d in din:
        s.add(d)
    if w.mode == "real":
        goal = z3.And(z3.And(dout) if dout else z3.BoolVal(True), sem.same(vin, vout))
    else:
        goal = sem.same(vin, vout)
    s.add(z3.Not(goal))
    return s.to_smt2().replace("(check-sat)", "")


def engine_raised(tb):
    # innermost frames inside /verif => the engine, not the code under verification
    lines = [ln for ln in tb.splitlines() if ln.strip().startswith("File ")]
    return bool(lines) and "/vf/" in lines[-1]


# ------------------------------------------------------------------------------------------- rules
def rule_methods():
    import functional_algorithms.rewrite as R

    out = []
    for name, obj in vars(R.Rewriter).items():
        if isinstance(obj, types.FunctionType) and (name in SIG):
            out.append(name)
    return sorted(out)


def typings(kind):
    if kind == "select":
        return [("B", "F", "F"), ("B", "B", "B")]
    if kind in ("eq", "ne"):
        return [("F", "F"), ("B", "B")]
    return [SIG[kind][0]]


def run_rule(args):
    kind, mode, typing = args[:3]
    seeds = args[3] if len(args) > 3 else None
    frontier = args[4] if len(args) > 4 else None
    import functional_algorithms.rewrite as R
    from functional_algorithms.expr import Expr

    uni, rel, alias = symexpr.make_universe(method_names=(kind,))
    named = ["posinf", "neginf", "largest", "smallest", "smallest_subnormal", "eps"] if mode in ("real", "fp64py") else []
    results = []
    npaths = 0
    t0 = time.time()

    def build_and_run(w):
        w.make_sem = lambda: make_sem(w)
        ops = tuple(new_hole(w, t, str(i)) for i, t in enumerate(typing))
        e = Expr(w.ctx, kind, ops)
        rw = R.Rewriter()
        out = getattr(rw, kind)(e)
        return e, out

    try:
        for po in explore(build_and_run, mode, uni, named, allow_alias=alias, seeds=seeds, frontier=frontier):
            npaths += 1
            sig = po.sig()
            base = "C04/rule/%s/%s/%s/%s" % (kind, "".join(typing), mode, sig)
            if po.exc is not None:
                ex, tb = po.exc
                if engine_raised(tb) or isinstance(ex, symrun.Unsupported):
                    results.append(dict(id=base + "/engine", ok=None, text="engine: %r" % (ex,), detail=tb[-600:], claimed=False))
                else:
                    results.append(dict(id=base + "/no-exception", ok=False, text="rule raised %r" % (ex,), detail=tb[-800:], meta=dict(kind=kind, mode=mode, sig=sig, typing=list(typing), raises=repr(ex))))
                continue
            if po.out is None or po.out is po.inp:
                continue  # no rewrite on this path: nothing to prove
            if not isinstance(po.out, Expr):
                results.append(dict(id=base + "/returns-expr", ok=False, text="rule returned %r" % (type(po.out),), meta=dict(kind=kind, mode=mode, sig=sig, typing=list(typing))))
                continue
            try:
                script = path_vc(po, po.inp, po.out)
            except denote.Undenotable as u:
                if mode == "real":
                    continue  # non-real constants: this path is covered by the FP passes only
                results.append(dict(id=base + "/denote", ok=None, text="undenotable: %s" % u, claimed=False))
                continue
            results.append(dict(id=base + "/denotation-preserved", smt2=script, text="%s: [[%s]] = [[result]] (%s)" % (kind, sig, mode), meta=dict(kind=kind, mode=mode, sig=sig, typing=list(typing), dec=_ser_dec(po.w.dec))))
    except symrun.Unsupported as u:
        results.append(dict(id="C04/rule/%s/%s/%s/engine-unsupported" % (kind, "".join(typing), mode), ok=None, text="unsupported: %s" % u, claimed=False))
    except Exception:
        results.append(dict(id="C04/rule/%s/%s/%s/engine-crash" % (kind, "".join(typing), mode), ok=core.ERROR, text=traceback.format_exc()[-1500:]))
    if frontier is not None:
        return (kind, mode, typing), results, npaths, time.time() - t0, list(explore.open)
    return (kind, mode, typing), results, npaths, time.time() - t0


def _ser_dec(dec):
    return [[list(k) if isinstance(k, tuple) else k, list(v) if isinstance(v, tuple) else v] for k, v in dec.items()]


# ------------------------------------------------------------------------------------------- inference
INFER_PROPS = ["zero", "nonzero", "finite", "nonnegative", "nonpositive", "positive", "negative"]


def run_inference(args):
    kind, mode, typing, prop = args
    from functional_algorithms.expr import Expr

    uni, rel, alias = symexpr.make_universe(infer_names=("_is_" + prop,))
    named = ["posinf", "neginf", "largest", "smallest", "smallest_subnormal", "eps", "pi"] if mode in ("real", "fp64py") else []
    results = []
    npaths = 0
    t0 = time.time()

    def build_and_run(w):
        w.make_sem = lambda: make_sem(w)
        if kind == "constant":
            h = new_hole(w, "F", "0")
            # force the refinement of the hole into each constant alternative
            k = h.kind
            if k != "constant":
                raise Prune()
            e = h
        else:
            ops = tuple(new_hole(w, t, str(i)) for i, t in enumerate(typing))
            e = Expr(w.ctx, kind, ops)
        w.real_infer_node = e
        ans = getattr(e, "_is_" + prop)
        if isinstance(ans, symrun.SymBool):
            ans = bool(ans)
        return e, ans

    try:
        for po in explore(build_and_run, mode, dict(F=[], B=[]) if kind == "constant" else uni, named, allow_alias=alias):
            npaths += 1
            sig = po.sig()
            base = "C04/infer/_is_%s/%s/%s/%s" % (prop, kind, mode, sig)
            if po.exc is not None:
                ex, tb = po.exc
                if engine_raised(tb) or isinstance(ex, symrun.Unsupported):
                    results.append(dict(id=base + "/engine", ok=None, text="engine: %r" % (ex,), detail=tb[-600:], claimed=False))
                else:
                    results.append(dict(id=base + "/no-exception", ok=False, text="inference raised %r" % (ex,), detail=tb[-800:], meta=dict(kind=kind, mode=mode, sig=sig, prop=prop)))
                continue
            ans = po.out
            if ans is None:
                continue
            w = po.w
            try:
                sem = make_sem(w)
                v, d = sem.collect(po.inp)
            except denote.Undenotable:
                continue
            P = symexpr.PROP_FORMULA[prop](v, w)
            s = z3.Solver()
            for h in w.hyps:
                s.add(h)
            for c in getattr(w, "sym_pc", []):
                s.add(c)
            for a in sem.axioms:
                s.add(a)
            for f in leaf_facts(w, sem):
                s.add(f)
            for c in d:
                s.add(c)
            s.add(z3.Not(P if ans else z3.Not(P)))
            # `finite = False` is never acted upon (the rewriter only tests `_is(...)` for truth and nothing negates
            # _is_finite), so its soundness is outside the property: attempted, not claimed
            # `_is_finite` answers never reach a fold: the only table rows keyed by a NUMERIC constant and "finite"
            # are all-None, and nothing negates _is_finite - its soundness is outside the property: attempted, not claimed
            claimed = prop != "finite"
            results.append(dict(id=base + "/answer-sound", smt2=s.to_smt2().replace("(check-sat)", ""), text="_is_%s(%s) = %s is sound (%s)" % (prop, sig, ans, mode), claimed=claimed, meta=dict(kind=kind, mode=mode, sig=sig, prop=prop, answer=ans, typing=list(typing), dec=_ser_dec(po.w.dec))))
    except symrun.Unsupported as u:
        results.append(dict(id="C04/infer/_is_%s/%s/%s/engine-unsupported" % (prop, kind, mode), ok=None, text="unsupported: %s" % u, claimed=False))
    except Exception:
        results.append(dict(id="C04/infer/_is_%s/%s/%s/engine-crash" % (prop, kind, mode), ok=core.ERROR, text=traceback.format_exc()[-1500:]))
    return (kind, mode, typing, prop), results, npaths, time.time() - t0


# ------------------------------------------------------------------------------------------- tables
def prop_formula(p, v, S):
    zero = z3.FPVal(0.0, S)
    fin = z3.Not(z3.Or(z3.fpIsInf(v), z3.fpIsNaN(v)))
    return dict(positive=z3.fpGT(v, zero), negative=z3.fpLT(v, zero), nonnegative=z3.fpGEQ(v, zero), nonpositive=z3.fpLEQ(v, zero), finite=fin)[p]


RELOPS = ["ge", "gt", "le", "lt", "eq", "ne"]


def relop_fp(i, a, b):
    return [z3.fpGEQ(a, b), z3.fpGT(a, b), z3.fpLEQ(a, b), z3.fpLT(a, b), z3.fpEQ(a, b), z3.Not(z3.fpEQ(a, b))][i]


def const_value(c, t):
    fi = numpy.finfo(t)
    if isinstance(c, str):
        return dict(posinf=t(numpy.inf), neginf=t(-numpy.inf), largest=fi.max, smallest=fi.smallest_normal, smallest_subnormal=fi.smallest_subnormal, eps=fi.eps)[c]
    return t(c)


def table_obligations(rep):
    import functional_algorithms.rewrite as R

    fn = ("rewrite._constant_relop_constant", "rewrite._constant_relop_any", "rewrite._any_relop_any")
    props = {"positive", "negative", "nonnegative", "nonpositive", "finite"}
    for t in (numpy.float16, numpy.float32, numpy.float64):
        eb, sb = symrun.FMT[t]
        S = z3.FPSort(eb, sb)
        tn = t.__name__
        for (a, b), row in dict.items(R._constant_relop_constant):
            va, vb = const_value(a, t), const_value(b, t)
            want = (bool(va >= vb), bool(va > vb), bool(va <= vb), bool(va < vb), bool(va == vb), bool(va != vb))
            for i, ent in enumerate(row):
                if ent is None:
                    continue
                rep.add(core.decided("C04/table/constant_relop_constant/%s/%s,%s/%s" % (tn, a, b, RELOPS[i]), PROP, ent == want[i], functions=fn[:1], text="%s %s %s is %s in %s" % (a, RELOPS[i], b, ent, tn), detail=dict(values=[repr(va), repr(vb)]), meta=dict(table="constant_relop_constant", row=[a, b], op=RELOPS[i], t=tn)))
        for (a, b), row in dict.items(R._constant_relop_any):
            # either (constant, prop) or the swapped (prop, constant) generated by the loop in rewrite.py
            if isinstance(b, str) and b in props and not (isinstance(a, str) and a in props):
                c, p, const_left = a, b, True
            else:
                c, p, const_left = b, a, False
            y = z3.FP("y", S)
            cv = symrun.fpval(const_value(c, t), (eb, sb))
            for i, ent in enumerate(row):
                if ent is None:
                    continue
                s = z3.Solver()
                s.add(z3.Not(z3.fpIsNaN(y)), prop_formula(p, y, S))
                rel = relop_fp(i, cv, y) if const_left else relop_fp(i, y, cv)
                s.add(rel != z3.BoolVal(ent))
                rep.add(core.smt("C04/table/constant_relop_any/%s/%s,%s/%s" % (tn, a, b, RELOPS[i]), PROP, s, functions=fn[1:2], text="forall %s y: (%s %s %s) is %s in %s" % (p, a if const_left else "y", RELOPS[i], "y" if const_left else b, ent, tn), budget_s=60, meta=dict(table="constant_relop_any", row=[a, b], op=RELOPS[i], t=tn, const_left=const_left, entry=ent)))
        for (a, b), row in dict.items(R._any_relop_any):
            x, y = z3.FP("x", S), z3.FP("y", S)
            for i, ent in enumerate(row):
                if ent is None:
                    continue
                s = z3.Solver()
                s.add(z3.Not(z3.fpIsNaN(x)), z3.Not(z3.fpIsNaN(y)), prop_formula(a, x, S), prop_formula(b, y, S))
                s.add(relop_fp(i, x, y) != z3.BoolVal(ent))
                rep.add(core.smt("C04/table/any_relop_any/%s/%s,%s/%s" % (tn, a, b, RELOPS[i]), PROP, s, functions=fn[2:], text="forall %s x, %s y: x %s y is %s in %s" % (a, b, RELOPS[i], ent, tn), budget_s=60, meta=dict(table="any_relop_any", row=[a, b], op=RELOPS[i], t=tn, entry=ent)))
    # covers: the property classes are inhabited
    S = z3.FPSort(8, 24)
    y = z3.FP("y", S)
    for p in sorted(props):
        s = z3.Solver()
        s.add(z3.Not(z3.fpIsNaN(y)), prop_formula(p, y, S))
        rep.add(core.smt("C04/table/cover/%s" % p, PROP, s, text="cover: some non-NaN float is %s" % p, expect="sat", kind="cover", budget_s=10))


# ------------------------------------------------------------------------------------------- main
def jobs_rules(tier):
    out = []
    for kind in rule_methods():
        for typing in typings(kind):
            for mode in MODES:
                if tier == "quick" and kind in HEAVY and mode != "real":
                    continue  # the FP passes of the comparison/select/logical rules run in the thorough tier
                out.append((kind, mode, tuple(typing)))
    return out


def jobs_infer(tier):
    out = []
    kinds = ["constant"] + [k for k in SIG if SIG[k] is not None and SIG[k][1] == "F"]
    for kind in kinds:
        typing = () if kind == "constant" else SIG[kind][0]
        for prop in INFER_PROPS:
            for mode in MODES:
                out.append((kind, mode, tuple(typing), prop))
    return out


def _dispatch(job):
    if job[0] == "rule":
        return ("rule",) + tuple(run_rule(job[1]))
    if job[0] == "split":
        return ("split",) + tuple(run_rule(job[1] + (None, 48)))
    return ("infer",) + tuple(run_inference(job[1]))


HEAVY = set(["lt", "le", "gt", "ge", "eq", "ne", "select", "logical_or", "logical_and"])


def build(tier, only=None):
    rep = core.Report(PROP, tier)
    rep.trust(
        "z3 5.1 (QF_NRA/LRA for the Real clause, QF_FP for the FP clause; cvc5 1.0.3 fallback)",
        "vf/denote.py: the meaning of each operation kind, written from the operation names",
        "CPython executing the real Rewriter / Expr inference code objects on abstract expressions (vf/symexpr.py)",
    )
    rep.assume(*symexpr.SHADOW_DOC)
    rep.assume(
        "well-typed programs: operand type classes per kind as in vf/symexpr.SIG (float / boolean; select polymorphic); complex, integer, list/item, apply and bitwise kinds are NOT covered",
        "operands reaching a rule are fix-points of the rewriter (bottom-up traversal): constant alternatives that the real Rewriter.constant would still change are excluded as operands",
        "kinds the rewriter/inference code never names (no string constant in its code objects) are represented by one opaque leaf; dynamic dispatch getattr(self, expr.kind) on a result is composition of rule contracts",
        "constants' `like` operand is a symbol of the pass's type (make_constant normalises it)",
        "FP clause precondition (from the statement): no node of the ORIGINAL is NaN, overflows (infinite from finite operands) or underflows (product/quotient of non-zero finite operands zero or subnormal); symbols range over all non-NaN floats",
        "Real clause: transcendental natives are uninterpreted total functions with log(1)=log2(1)=log10(1)=log1p(0)=0; format constants only satisfy 0 < smallest_subnormal < smallest < eps < 1 < largest",
        "termination of the fix-point loops (rewrite / _try_rewrite) is NOT decided (liveness)",
    )
    rep.extraction_drops.append("nothing from the rule bodies; the print-only helpers _todo/_notimpl are executed as they are")
    table_obligations(rep)
    for f in ("rewrite._constant_relop_constant", "rewrite._constant_relop_any", "rewrite._any_relop_any"):
        rep.under_contract(f, "every non-None entry is a closed fact for float16/32/64")
    jobs = [("rule", j) for j in jobs_rules(tier)] + [("infer", j) for j in jobs_infer(tier)]
    if only:
        jobs = [j for j in jobs if only in repr(j)]
    ctx = mp.get_context("fork")
    with ctx.Pool(core.NPROC) as pool:
        # heavy rules are first expanded breadth-first to ~48 open sub-trees each, which then become jobs
        heavy = [j for j in jobs if j[0] == "rule" and j[1][0] in HEAVY]
        light = [j for j in jobs if not (j[0] == "rule" and j[1][0] in HEAVY)]
        split = pool.map(_dispatch, [("split", j[1]) for j in heavy], chunksize=1)
        res = []
        shard_jobs = []
        for what, key, results, npaths, dt, open_ in split:
            res.append(("rule", key, results, npaths, dt))
            for i in range(0, len(open_), 3):
                shard_jobs.append(("rule", key + (open_[i : i + 3],)))
        res += pool.map(_dispatch, shard_jobs + light, chunksize=1)
    stats = {}
    explored = {}
    seen_ids = {}
    for what, key, results, npaths, dt in res:
        fnname = ("rewrite.Rewriter.%s" % key[0]) if what == "rule" else ("expr.Expr._is_%s" % key[3])
        rep.under_contract(fnname, "denotation preserved on every path" if what == "rule" else "answer sound for every kind case")
        stats.setdefault(fnname, [0, 0.0])
        stats[fnname][0] += npaths
        stats[fnname][1] += dt
        any_claimed = False
        for r in results:
            if r["id"] in seen_ids:
                if r.get("smt2") in seen_ids[r["id"]]:
                    continue  # the same path reached twice (dead decisions)
                # same visible decisions, different dead ones that left a hypothesis behind: keep both
                seen_ids[r["id"]].append(r.get("smt2"))
                r = dict(r, id=r["id"].rsplit("/", 1)[0] + " ~v%d/" % len(seen_ids[r["id"]]) + r["id"].rsplit("/", 1)[1])
            else:
                seen_ids[r["id"]] = [r.get("smt2")]
            claimed = r.get("claimed", True)
            if "smt2" in r:
                o = core.smt(r["id"], PROP, r["smt2"], functions=(fnname,), text=r.get("text", ""), budget_s=60, meta=r.get("meta"), claimed=claimed)
            else:
                o = core.decided(r["id"], PROP, r["ok"], functions=(fnname,), text=r.get("text", ""), detail=r.get("detail"), meta=r.get("meta"), claimed=claimed)
            any_claimed = any_claimed or claimed
            rep.add(o)
        # a method all of whose paths return None still is "under contract": record the path count as an obligation
        explored.setdefault((what, key[:4] if what == "infer" else key[:3], fnname), [0, 0.0])
        explored[(what, key[:4] if what == "infer" else key[:3], fnname)][0] += npaths
        explored[(what, key[:4] if what == "infer" else key[:3], fnname)][1] += dt
    for (what, key, fnname), (npaths, dt) in explored.items():
        rep.add(core.decided("C04/%s/%s/%s/explored" % (what, "/".join(str(k) for k in key if not isinstance(k, tuple)), "".join(key[2])), PROP, npaths > 0, functions=(fnname,), text="%d paths explored, every path either returned None or produced an obligation" % npaths, detail=dict(paths=npaths, seconds=round(dt, 2))))
    rep.notes.append("paths per function: " + "; ".join("%s=%d" % (k, v[0]) for k, v in sorted(stats.items())))
    # composition lemma: local contracts => whole rewriter (congruence of DENOTE + transitivity), over uninterpreted [[.]]
    D = z3.DeclareSort("Expr")
    V = z3.DeclareSort("Val")
    den = z3.Function("den", D, V)
    op = z3.Function("op", D, D, D)  # a binary node
    sem = z3.Function("sem", V, V, V)  # its meaning
    a, b, a2, b2, r = z3.Consts("a b a2 b2 r", D)
    s = z3.Solver()
    x, y = z3.Consts("x y", D)
    s.add(z3.ForAll([x, y], den(op(x, y)) == sem(den(x), den(y))))  # DENOTE is compositional
    s.add(den(a2) == den(a), den(b2) == den(b))  # operands rewritten soundly (induction hypothesis)
    s.add(den(r) == den(op(a2, b2)))  # the rule applied to the rebuilt node is sound (local contract)
    s.add(den(r) != den(op(a, b)))
    rep.add(core.smt("C04/composition/congruence", PROP, s, text="IH on operands + local rule contract => the rewritten node denotes the original (any DAG size)", kind="lemma", budget_s=20))
    # canary: the unsound rule  !(a<b) -> b<a  must be refuted by the same machinery
    S = z3.FPSort(8, 24)
    p, q = z3.FP("p", S), z3.FP("q", S)
    s = z3.Solver()
    s.add(z3.Not(z3.fpIsNaN(p)), z3.Not(z3.fpIsNaN(q)), z3.Not(z3.fpLT(p, q)) != z3.fpLT(q, p))
    rep.add(core.smt("C04/canary/not-lt-is-not-gt", PROP, s, text="canary: !(a<b) differs from b<a at a == b", expect="sat", kind="canary", budget_s=10))
    rep.replayers["C04/table/"] = replay_table
    rep.replayers["C04/rule/"] = replay_rule
    rep.replayers["C04/infer/"] = replay_rule
    # bounded stand-in for the rewriter as a whole (traversal, folding across types, cast rules): random graphs, never proofs
    if only is None or "bounded" in only:
        from vf.contracts import C04_bounded

        C04_bounded.run(rep, tier)
        rep.replayers["C04/bounded"] = C04_bounded.replay
    return rep


# ------------------------------------------------------------------------------------------- replay
def replay_table(o):
    """build a real program that exercises the row and evaluate it before / after rewriting"""
    meta = o.meta or {}
    t = getattr(numpy, meta.get("t", "float32"))
    m = o.model or {}
    info = dict(row=meta.get("row"), op=meta.get("op"), witness_class="%s row=%s" % (meta.get("table"), meta.get("row")))
    try:
        if meta.get("table") == "constant_relop_constant":
            info["replayed"] = True
            info["note"] = "ground fact: table entry differs from the NumPy comparison of the constants"
            return info
        import functional_algorithms as fa
        import functional_algorithms.rewrite as R

        def fl(name):
            v = m.get(name)
            if not v or v.get("bits") is None:
                return None
            return symrun.UINT[t](v["bits"]).view(t)

        a, b = meta["row"]
        i = RELOPS.index(meta["op"])
        py = [lambda u, v: u >= v, lambda u, v: u > v, lambda u, v: u <= v, lambda u, v: u < v, lambda u, v: u == v, lambda u, v: u != v][i]
        if meta["table"] == "constant_relop_any":
            y = fl("y")
            c = const_value(b if not meta["const_left"] else a, t)
            truth = bool(py(c, y)) if meta["const_left"] else bool(py(y, c))
            info.update(y=repr(y), constant=repr(c), truth=truth, table_entry=meta["entry"])
        else:
            x, y = fl("x"), fl("y")
            truth = bool(py(x, y))
            info.update(x=repr(x), y=repr(y), truth=truth, table_entry=meta["entry"])
        info["replayed"] = truth != meta["entry"]
        # and through the real rewriter on a witness program when the classes are realisable by inference
        prog = witness_program(meta, t, m)
        if prog:
            info["program"] = prog
    except Exception:
        info["replay_error"] = traceback.format_exc()[-800:]
        info.setdefault("replayed", False)
    return info


WITNESS = dict(
    nonnegative=("abs(p)", lambda v: v >= 0),
    nonpositive=("-abs(p)", lambda v: v <= 0),
)


def witness_program(meta, t, model):
    """select(<lhs> rop <rhs>, 1, 2) with lhs/rhs expressions on which the REAL inference answers the row's classes;
    evaluated with the repository's numpy target before and after rewriting"""
    try:
        import functional_algorithms as fa
        from functional_algorithms import targets

        if meta.get("table") != "any_relop_any":
            return None
        a, b = meta["row"]
        mk = dict(nonnegative=lambda c, s: abs(s), nonpositive=lambda c, s: -abs(s), positive=None, negative=None, finite=None)
        if mk.get(a) is None or mk.get(b) is None:
            return None
        op = meta["op"]
        ctx = fa.Context(paths=[])
        p = ctx.symbol("p", t.__name__)
        r = ctx.symbol("r", t.__name__)
        lhs, rhs = mk[a](ctx, p), mk[b](ctx, r)
        cond = getattr(ctx, op)(lhs, rhs)
        body = ctx.select(cond, ctx.constant(1.0, p), ctx.constant(2.0, p))
        import functional_algorithms.rewrite as R

        new = body.rewrite(R)
        # evaluate both by direct interpretation at the model point (x, y) -> (p, r) = (x, y) up to sign
        def fl(name):
            v = model.get(name)
            return symrun.UINT[t](v["bits"]).view(t)

        x, y = fl("x"), fl("y")
        pv, rv = abs(x), abs(y)
        py = dict(ge=lambda u, v: u >= v, gt=lambda u, v: u > v, le=lambda u, v: u <= v, lt=lambda u, v: u < v, eq=lambda u, v: u == v, ne=lambda u, v: u != v)[op]
        lv = abs(pv) if a == "nonnegative" else -abs(pv)
        rv2 = abs(rv) if b == "nonnegative" else -abs(rv)
        before = 1.0 if py(lv, rv2) else 2.0
        return dict(expr=str(body).replace("\n", " ")[:300], rewritten=str(new).replace("\n", " ")[:300], p=repr(pv), r=repr(rv), value_before=before)
    except Exception:
        return dict(error=traceback.format_exc()[-400:])


def replay_rule(o):
    """re-run the path natively with concrete payloads/leaf values from the model: rebuild the abstract input with
    witness sub-expressions realising the forked answers, evaluate input and output by direct interpretation"""
    meta = o.meta or {}
    info = dict(witness_class="%s %s %s" % (meta.get("kind"), meta.get("mode"), meta.get("sig")), sig=meta.get("sig"))
    if meta.get("raises"):
        info["replayed"] = True
        info["raised"] = meta["raises"]
        return info
    try:
        from vf import witness

        r = witness.replay(meta, o.model or {})
        info.update(r)
        if meta.get("prop") and r.get("witness_kind"):
            # inference findings are identified by (property asked, kind, class of the failing operands), not by path
            info["witness_class"] = "_is_%s(%s) %s" % (meta["prop"], meta["kind"], r["witness_kind"])
    except Exception:
        info["replay_error"] = traceback.format_exc()[-1200:]
        info.setdefault("replayed", False)
    return info


def main(tier, only=None):
    rep = build(tier, only)
    return rep.finish()


def replay(path):
    d = json.load(open(path))
    o = core.Obligation(id=d["obligation"], prop=PROP, model=d.get("model"), meta=d.get("meta") or {})
    fn = replay_table if "/table/" in o.id else replay_rule
    info = fn(o)
    print(json.dumps(info, indent=1, default=str))
    return 1 if info.get("replayed") else 0
