"""C14 - the ULP metric is the integer distance on the float lattice.

Functions under contract: utils.diff_ulp (scalar branch, complex branch, flush modes, equal_nan),
utils.diff_log2ulp, utils.ulp.  The real code objects run on symbolic NumPy scalars (E2); every feasible
path yields one obligation `pre AND path => result == spec`.

Spec (from the property statement, independent of the code):
  rank(x) = sign(x) * int(bits(|x|))           -- position on the float lattice, +0 and -0 both at 0
  diff_ulp(x, y) = |rank(x) - rank(y)|         -- for finite x, y
  flush mode: rank_f(x) = 0 if |x| < sn/2; 1 if sn/2 < |x| <= sn; (either at the tie |x| = sn/2);
              rank(|x|) - (bits(sn) - 1) for |x| >= sn        (sn = smallest normal)
  complex: max of the component distances
That rank is an order isomorphism between the finite floats (with +-0 identified) and an integer interval is
proved separately as lattice lemmas L1..L3, so `|rank(x) - rank(y)|` IS the number of representable steps.
"""
from __future__ import annotations

import json
import types

import numpy
import z3

from vf import core, symrun
from vf.symrun import FMT, UINT, SymBool, SymComplex, SymFP, SymInt, explore, reglobal, side_vc, vc

PROP = "C14"
TYPES = [numpy.float16, numpy.float32, numpy.float64]
W = 80


def fp_sort(t):
    return z3.FPSort(*FMT[t])


def rank(e, t, W=W):
    """signed lattice rank of the FP term e as a W-bit signed BV"""
    eb, sb = FMT[t]
    mag = z3.ZeroExt(W - (eb + sb), z3.fpToIEEEBV(z3.fpAbs(e)))
    return z3.If(z3.fpLT(e, z3.FPVal(0, fp_sort(t))), -mag, mag)


def babs(a):
    return z3.If(a < 0, -a, a)


def finite(e):
    return z3.Not(z3.Or(z3.fpIsInf(e), z3.fpIsNaN(e)))


def spec_plain(x, y, t):
    return babs(rank(x, t) - rank(y, t))


def rank_flush_cases(x, t):
    """returns (rank expression for |x| > sn/2 side choice 1, tie condition) - the spec leaves the tie free"""
    eb, sb = FMT[t]
    sn = numpy.finfo(t).smallest_normal
    snv = symrun.fpval(sn, FMT[t])
    half = symrun.fpval(sn / t(2), FMT[t])
    i = int(sn.view(UINT[t])) - 1
    ax = z3.fpAbs(x)
    mag = z3.ZeroExt(W - (eb + sb), z3.fpToIEEEBV(ax))
    big = mag - z3.BitVecVal(i, W)
    r_hi = z3.If(z3.fpGEQ(ax, snv), big, z3.If(z3.fpGEQ(ax, half), z3.BitVecVal(1, W), z3.BitVecVal(0, W)))
    r_lo = z3.If(z3.fpGEQ(ax, snv), big, z3.If(z3.fpGT(ax, half), z3.BitVecVal(1, W), z3.BitVecVal(0, W)))
    neg = z3.fpLT(x, z3.FPVal(0, fp_sort(t)))
    return z3.If(neg, -r_hi, r_hi), z3.If(neg, -r_lo, r_lo)


def spec_flush_ok(res, x, y, t):
    """res equals |rank_f(x) - rank_f(y)| for one of the admissible tie resolutions - the SAME resolution for both
    arguments (the statement: subnormals collapse *consistently*, and the distance of equal values is zero; a resolution
    chosen per argument would accept diff_ulp(h, h) == 1 at h = smallest_normal/2 - seeded change C14-m6)"""
    xs = rank_flush_cases(x, t)
    ys = rank_flush_cases(y, t)
    return z3.Or([res == babs(a - b) for a, b in zip(xs, ys)])


def tname(t):
    return t.__name__


# ---------------------------------------------------------------------------------------------
def obligations_diff_ulp(rep, tier):
    import functional_algorithms.utils as U

    g = reglobal(U)
    f = g["diff_ulp"]
    for t in TYPES:
        for flush_name, flush in (("unspecified", U.UNSPECIFIED), ("False", False), ("True", True)):
            for equal_nan in (False, True):
                xs = z3.FP("x", fp_sort(t))
                ys = z3.FP("y", fp_sort(t))

                def run(e, t=t, flush=flush, equal_nan=equal_nan, xs=xs, ys=ys):
                    return f(SymFP(xs, t), SymFP(ys, t), flush_subnormals=flush, equal_nan=equal_nan)

                paths = explore(run, int_width=W)
                base = "C14/utils.diff_ulp/%s/flush=%s/equal_nan=%s" % (tname(t), flush_name, equal_nan)
                flushing = flush is True or (flush is U.UNSPECIFIED and U.default_flush_subnormals)
                # the property's wording: flushing only when explicitly requested
                flushing_spec = flush is True
                nb = z3.BitVecVal(1 << (sum(FMT[t])), W)
                for p in paths:
                    pid = "%s/path=%s" % (base, p.sig())
                    if p.exc is not None:
                        rep.add(core.decided(pid + "/no-exception", PROP, False, functions=("utils.diff_ulp",), text="diff_ulp raised %r on a feasible path" % (p.exc,), detail=dict(exc=repr(p.exc)), meta=dict(t=tname(t), flush=flush_name, equal_nan=equal_nan)))
                        continue
                    res = p.result
                    if isinstance(res, int):
                        res_e = z3.BitVecVal(res, W)
                    elif isinstance(res, SymInt):
                        res_e = res.e
                    else:
                        rep.add(core.decided(pid + "/returns-int", PROP, False, functions=("utils.diff_ulp",), text="result is not an int: %r" % (type(res),), meta=dict(t=tname(t), flush=flush_name, equal_nan=equal_nan)))
                        continue
                    fin = z3.And(finite(xs), finite(ys))
                    if flushing_spec:
                        goal_fin = spec_flush_ok(res_e, xs, ys, t)
                    else:
                        goal_fin = res_e == spec_plain(xs, ys, t)
                    # non-finite: distance is 0 or 2**bits; 2**bits whenever exactly one is non-finite or infinities of opposite sign
                    one_nonfin = finite(xs) != finite(ys)
                    opp_inf = z3.And(z3.fpIsInf(xs), z3.fpIsInf(ys), z3.fpIsNegative(xs) != z3.fpIsNegative(ys))
                    same_inf = z3.And(z3.fpIsInf(xs), z3.fpIsInf(ys), z3.fpIsNegative(xs) == z3.fpIsNegative(ys))
                    both_nan = z3.And(z3.fpIsNaN(xs), z3.fpIsNaN(ys))
                    goal_nonfin = z3.And(
                        z3.Or(res_e == 0, res_e == nb),
                        z3.Implies(z3.Or(one_nonfin, opp_inf), res_e == nb),
                        z3.Implies(same_inf, res_e == 0),
                        z3.Implies(z3.And(both_nan, z3.BoolVal(equal_nan)), res_e == 0),
                    )
                    goal = z3.If(fin, goal_fin, goal_nonfin)
                    rep.add(core.smt(pid + "/result==spec", PROP, vc(p, goal), functions=("utils.diff_ulp",), text="diff_ulp(x,y)=|rank(x)-rank(y)| (finite; flush spec when requested), 0/2^bits rules otherwise", budget_s=120, meta=dict(t=tname(t), flush=flush_name, equal_nan=equal_nan, fn="diff_ulp")))
                    sv = side_vc(p)
                    if sv:
                        rep.add(core.smt(pid + "/int-model-no-overflow", PROP, sv, functions=("utils.diff_ulp",), text="python-int model: no operation overflows the %d-bit backing vector" % W, budget_s=60, kind="lemma"))
                # cover: the precondition region (finite, finite) is reachable and some path returns non-zero
                s = z3.Solver()
                s.add(finite(xs), finite(ys), z3.Not(z3.fpEQ(xs, ys)))
                rep.add(core.smt(base + "/cover/finite-distinct", PROP, s, functions=("utils.diff_ulp",), text="cover: finite distinct inputs exist", expect="sat", kind="cover", budget_s=30))


def obligations_complex(rep):
    import functional_algorithms.utils as U

    for t, ct in ((numpy.float32, numpy.complex64), (numpy.float64, numpy.complex128)):
        for flush_name, flush in (("unspecified", U.UNSPECIFIED), ("True", True)):
            g = reglobal(U)
            real_f = g["diff_ulp"]
            v = {n: z3.FP(n, fp_sort(t)) for n in ("xr", "xi", "yr", "yi")}
            specs = []

            def callee_contract(x, y, flush_subnormals=U.UNSPECIFIED, equal_nan=False, real_f=real_f, specs=specs, t=t):
                # modular step: component calls are replaced by the (separately discharged) scalar contract
                if isinstance(x, SymFP):
                    r = z3.BitVec(symrun.eng().fresh_name("d"), W)
                    specs.append((r, x.e, y.e))
                    return SymInt(r)
                return real_f(x, y, flush_subnormals=flush_subnormals, equal_nan=equal_nan)

            code_f = types.FunctionType(U.diff_ulp.__code__, dict(g, diff_ulp=callee_contract), "diff_ulp", U.diff_ulp.__defaults__)
            code_f.__kwdefaults__ = U.diff_ulp.__kwdefaults__

            def run(e, t=t, ct=ct, flush=flush, v=v, specs=specs, code_f=code_f):
                del specs[:]
                x = SymComplex(SymFP(v["xr"], t), SymFP(v["xi"], t), ct)
                y = SymComplex(SymFP(v["yr"], t), SymFP(v["yi"], t), ct)
                res = code_f(x, y, flush_subnormals=flush)
                return res, list(specs)

            paths = explore(run, int_width=W)
            base = "C14/utils.diff_ulp/%s/flush=%s" % (ct.__name__, flush_name)
            for p in paths:
                if p.exc is not None:
                    rep.add(core.decided(base + "/path=%s/no-exception" % p.sig(), PROP, False, functions=("utils.diff_ulp",), detail=dict(exc=repr(p.exc))))
                    continue
                res, sp = p.result
                ok_shape = len(sp) == 2 and sp[0][1].eq(v["xr"]) and sp[0][2].eq(v["yr"]) and sp[1][1].eq(v["xi"]) and sp[1][2].eq(v["yi"])
                rep.add(core.decided(base + "/path=%s/components-paired" % p.sig(), PROP, bool(ok_shape), functions=("utils.diff_ulp",), text="complex distance calls the scalar distance on (re,re) and (im,im)"))
                if not ok_shape:
                    continue
                d1, d2 = sp[0][0], sp[1][0]
                goal = res.e == z3.If(d1 >= d2, d1, d2)
                rep.add(core.smt(base + "/path=%s/result==max" % p.sig(), PROP, vc(p, goal, extra_hyp=[d1 >= 0, d2 >= 0]), functions=("utils.diff_ulp",), text="complex distance = the larger component distance", budget_s=30))


def obligations_log2(rep):
    import functional_algorithms.utils as U

    g = reglobal(U)
    W_ = W
    r = z3.BitVec("d", W_)

    def callee(x, y, flush_subnormals=U.UNSPECIFIED, equal_nan=False):
        return SymInt(r)

    f = types.FunctionType(U.diff_log2ulp.__code__, dict(g, diff_ulp=callee), "diff_log2ulp", U.diff_log2ulp.__defaults__)
    t = numpy.float32
    xs, ys = z3.FP("x", fp_sort(t)), z3.FP("y", fp_sort(t))

    def run(e):
        e.assume(r >= 0)
        e.assume(r <= z3.BitVecVal(1 << 64, W_))
        return f(SymFP(xs, t), SymFP(ys, t))

    for p in explore(run, int_width=W_):
        res = p.result
        # spec: smallest k with d < 2**k
        k = res.e
        one = z3.BitVecVal(1, W_)
        goal = z3.And(k >= 0, k <= 65, z3.ULT(r, one << k), z3.Or(k == 0, z3.UGE(r, one << (k - 1))))
        rep.add(core.smt("C14/utils.diff_log2ulp/path=%s/result==bit_length(diff_ulp)" % p.sig(), PROP, vc(p, goal), functions=("utils.diff_log2ulp",), text="diff_log2ulp = bit length of the callee's (contracted) result", budget_s=30))


def obligations_ulp(rep):
    import functional_algorithms.utils as U

    g = reglobal(U)
    f = g["ulp"]
    for t in TYPES:
        eb, sb = FMT[t]
        n = eb + sb
        xs = z3.FP("x", fp_sort(t))

        def run(e, t=t, xs=xs):
            return f(SymFP(xs, t))

        paths = explore(run, int_width=W)
        base = "C14/utils.ulp/%s" % tname(t)
        fi = numpy.finfo(t)
        for p in paths:
            pid = base + "/path=%s" % p.sig()
            if p.exc is not None:
                rep.add(core.decided(pid + "/no-exception", PROP, False, functions=("utils.ulp",), detail=dict(exc=repr(p.exc))))
                continue
            res = p.result
            if isinstance(res, numpy.floating):
                u = symrun.fpval(res, FMT[t])
                if type(res) is not t:
                    rep.add(core.decided(pid + "/dtype", PROP, False, functions=("utils.ulp",), text="ulp returned %r for %r" % (type(res), t)))
                    continue
            elif isinstance(res, SymFP) and res.t is t:
                u = res.e
            else:
                rep.add(core.decided(pid + "/dtype", PROP, False, functions=("utils.ulp",), text="ulp returned %r" % (type(res),)))
                continue
            bits = z3.fpToIEEEBV(xs)
            absbits = z3.fpToIEEEBV(z3.fpAbs(xs))
            up = z3.fpAdd(z3.RNE(), z3.fpAbs(xs), u)
            goal = z3.And(
                # x >= 0 finite: x + ulp(x) is the next float up (bit pattern + 1; largest -> inf)
                z3.Implies(z3.And(finite(xs), z3.fpGEQ(xs, z3.FPVal(0, fp_sort(t)))), z3.fpToIEEEBV(z3.fpAdd(z3.RNE(), z3.fpAbs(xs), u)) == absbits + 1),
                # x < 0 finite: x - ulp(x) is the next float down (magnitude pattern + 1)
                z3.Implies(z3.And(finite(xs), z3.fpLT(xs, z3.FPVal(0, fp_sort(t)))), z3.fpToIEEEBV(z3.fpSub(z3.RNE(), xs, u)) == bits + 1),
                # ulp(0) = smallest subnormal
                z3.Implies(z3.fpIsZero(xs), z3.fpToIEEEBV(u) == z3.BitVecVal(1, n)),
                z3.Implies(z3.fpIsInf(xs), z3.And(z3.fpIsInf(u), z3.fpIsPositive(u))),
                z3.Implies(z3.fpIsNaN(xs), z3.fpIsNaN(u)),
                # finite x: ulp(x) is a positive power of two (a single bit in the pattern, or fraction 0)
                z3.Implies(finite(xs), z3.And(z3.fpIsPositive(u), finite(u))),
            )
            rep.add(core.smt(pid + "/nextafter-identities", PROP, vc(p, goal), functions=("utils.ulp",), text="x+ulp(x)=nextafter(x,inf) (x>=0), x-ulp(x)=nextafter(x,-inf) (x<0), ulp(0), ulp(inf), ulp(nan)", budget_s=120, meta=dict(t=tname(t), fn="ulp")))
            sv = side_vc(p)
            if sv:
                rep.add(core.smt(pid + "/int-model-no-overflow", PROP, sv, functions=("utils.ulp",), budget_s=60, kind="lemma"))
        # ulp(-x) == ulp(x): two runs of the real code related
        ys = z3.FP("y", fp_sort(t))

        def run2(e, t=t, xs=xs):
            a = f(SymFP(xs, t))
            b = f(SymFP(z3.fpNeg(xs), t))
            return a, b

        for p in explore(run2, int_width=W):
            if p.exc is not None:
                continue
            a, b = p.result
            ea = a.e if isinstance(a, SymFP) else symrun.fpval(a, FMT[t])
            ebb = b.e if isinstance(b, SymFP) else symrun.fpval(b, FMT[t])
            goal = z3.Or(z3.fpToIEEEBV(ea) == z3.fpToIEEEBV(ebb), z3.And(z3.fpIsNaN(ea), z3.fpIsNaN(ebb)))
            rep.add(core.smt(base + "/even/path=%s" % p.sig(), PROP, vc(p, goal), functions=("utils.ulp",), text="ulp(-x) == ulp(x)", budget_s=120))


def lattice_lemmas(rep):
    for t in TYPES:
        eb, sb = FMT[t]
        n = eb + sb
        S = fp_sort(t)
        x, y = z3.FP("x", S), z3.FP("y", S)
        base = "C14/lattice/%s" % tname(t)
        s = z3.Solver()
        s.add(finite(x), finite(y), z3.fpLT(x, y) != (rank(x, t) < rank(y, t)))
        rep.add(core.smt(base + "/L1-order-iso", PROP, s, text="finite x<y iff rank(x)<rank(y)", kind="lemma", budget_s=120))
        s = z3.Solver()
        s.add(finite(x), finite(y), z3.fpEQ(x, y) != (rank(x, t) == rank(y, t)))
        rep.add(core.smt(base + "/L1b-equal-iff-rank-equal", PROP, s, text="x==y (with +0 == -0) iff rank equal", kind="lemma", budget_s=120))
        b = z3.BitVec("b", n)
        largest = int(numpy.finfo(t).max.view(UINT[t]))
        s = z3.Solver()
        fb = z3.fpBVToFP(b, S)
        s.add(z3.ULE(b, largest), z3.Not(z3.And(finite(fb), z3.Not(z3.fpIsNegative(fb)), z3.fpToIEEEBV(fb) == b, rank(fb, t) == z3.ZeroExt(W - n, b), rank(z3.fpNeg(fb), t) == -z3.ZeroExt(W - n, b))))
        rep.add(core.smt(base + "/L2-onto", PROP, s, text="every integer in [-R, R] is the rank of a finite float (R = bits(largest))", kind="lemma", budget_s=120))
        s = z3.Solver()
        s.add(finite(x), z3.Not(z3.And(rank(x, t) >= -largest, rank(x, t) <= largest)))
        rep.add(core.smt(base + "/L3-range", PROP, s, text="rank of a finite float lies in [-R, R]", kind="lemma", budget_s=120))
    # corollaries over the integers (LIA): symmetry, identity of indiscernibles, additivity on monotone chains
    a, b, c = z3.Ints("a b c")
    ab = lambda u: z3.If(u < 0, -u, u)  # noqa
    s = z3.Solver()
    s.add(z3.Not(z3.And(ab(a - b) == ab(b - a), (ab(a - b) == 0) == (a == b), z3.Implies(z3.And(a <= b, b <= c), ab(a - c) == ab(a - b) + ab(b - c)), ab(a - (a + c)) == ab(c))))
    rep.add(core.smt("C14/lattice/corollaries-LIA", PROP, s, text="|ra-rb| symmetric, zero iff equal, additive along monotone chains, k for the k-th neighbour", kind="lemma", budget_s=30))


# ---------------------------------------------------------------------------------------------
def crosscheck_models(rep):
    """engine self-check: the E2 models against the real NumPy on edge + seeded values (exit 3 on mismatch)"""
    import random

    rnd = random.Random(core.SEED)
    bad = []
    n = 0
    for t in TYPES:
        eb, sb = FMT[t]
        ut = UINT[t]
        nbits = eb + sb
        vals = [0, 1, 2, (1 << (sb - 1)) - 1, 1 << (sb - 1), (1 << (sb - 1)) + 1, ((1 << eb) - 1) << (sb - 1), (((1 << eb) - 1) << (sb - 1)) - 1, (((1 << eb) - 1) << (sb - 1)) + 1, 1 << (nbits - 1)]
        vals += [rnd.getrandbits(nbits) for _ in range(40)]
        vals += [v | (1 << (nbits - 1)) for v in vals[:8]]
        e = symrun.Engine(int_width=W)
        symrun.Engine.cur = e
        try:
            for b in vals:
                x = ut(b).view(t)
                sx = SymFP(symrun.fpval(x, FMT[t]), t)
                with numpy.errstate(all="ignore"):
                    want_fre = int(numpy.frexp(x)[1])
                    fre = symrun.frexp_exponent(sx)  # folds to a Python int when the operand is concrete
                    got_fre = z3.BitVecVal(fre, W) if isinstance(fre, int) else z3.simplify(fre.e)
                    n += 1
                    if not z3.is_true(z3.simplify(got_fre == z3.BitVecVal(want_fre, W))):
                        bad.append(("frexp", tname(t), b, want_fre, str(got_fre)))
                    gotv = z3.simplify(z3.fpToIEEEBV(sx.e))
                    if not numpy.isnan(x) and gotv.as_long() != b:
                        bad.append(("view", tname(t), b))
                    for name, m in (("isfinite", symrun._np_isfinite), ("isinf", symrun._np_isinf), ("isnan", symrun._np_isnan)):
                        n += 1
                        if bool(getattr(numpy, name)(x)) != z3.is_true(z3.simplify(m(sx).e)):
                            bad.append((name, tname(t), b))
            for k in list(range(-1100, 1100, 7)) + [-24, -25, -14, -15, 15, 16, 127, 128, -126, -127, -149, -150, 1023, 1024, -1022, -1023, -1074, -1075]:
                with numpy.errstate(all="ignore"):
                    want = numpy.ldexp(t(1), k)
                got = z3.simplify(z3.fpToIEEEBV(symrun.ldexp_pow2(t, SymInt(z3.BitVecVal(k, W))).e))
                n += 1
                if got.as_long() != int(want.view(ut)):
                    bad.append(("ldexp", tname(t), k, int(want.view(ut)), got.as_long()))
        finally:
            symrun.Engine.cur = None
    rep.add(core.decided("C14/engine/model-crosscheck", PROP, (not bad) if not bad else core.ERROR, text="E2 models (view, isfinite/isinf/isnan, frexp exponent, ldexp(1,k)) agree with NumPy on %d edge/seeded evaluations" % n, detail=dict(n=n, bad=bad[:10]), kind="model-crosscheck"))


# ---------------------------------------------------------------------------------------------
def py_rank(x):
    t = type(x)
    m = int(abs(x).view(UINT[t]))
    return -m if x < 0 else m


def native_replay(o):
    """decode the model and run the REAL function natively; compare with the python spec"""
    import functional_algorithms.utils as U

    m = o.model or {}
    meta = o.meta or {}
    t = {"float16": numpy.float16, "float32": numpy.float32, "float64": numpy.float64}.get(meta.get("t"))
    if t is None or "x" not in m:
        return dict(replayed=False, witness_class=None)
    x = UINT[t](m["x"]["bits"]).view(t)
    info = dict(x=repr(x), witness_class=None)
    if meta.get("fn") == "diff_ulp" and "y" in m:
        y = UINT[t](m["y"]["bits"]).view(t)
        flush = {"unspecified": U.UNSPECIFIED, "False": False, "True": True}[meta["flush"]]
        got = U.diff_ulp(x, y, flush_subnormals=flush, equal_nan=meta["equal_nan"])
        info.update(y=repr(y), got=int(got))
        if numpy.isfinite(x) and numpy.isfinite(y):
            if flush is True:
                sn = numpy.finfo(t).smallest_normal
                i = int(sn.view(UINT[t])) - 1

                def rf(v):
                    a = abs(v)
                    if a >= sn:
                        r = [int(a.view(UINT[t])) - i]
                    elif a > sn / t(2):
                        r = [1]
                    elif a < sn / t(2):
                        r = [0]
                    else:
                        r = [0, 1]
                    return [-q if v < 0 else q for q in r]

                wants = {abs(a - b) for a in rf(x) for b in rf(y)}
            else:
                wants = {abs(py_rank(x) - py_rank(y))}
            info["want"] = sorted(wants)
            info["replayed"] = int(got) not in wants
        else:
            info["replayed"] = True  # non-finite rule: report what the code returned
            info["note"] = "non-finite rule violated per solver; native result attached"
        info["witness_class"] = "diff_ulp %s flush=%s" % (meta.get("t"), meta.get("flush"))
    elif meta.get("fn") == "ulp":
        with numpy.errstate(all="ignore"):
            u = U.ulp(x)
            if numpy.isfinite(x):
                if x >= 0:
                    ok = (x + u) == numpy.nextafter(x, t(numpy.inf))
                else:
                    ok = (x - u) == numpy.nextafter(x, t(-numpy.inf))
                if x == 0:
                    ok = ok and u == numpy.finfo(t).smallest_subnormal
            elif numpy.isinf(x):
                ok = u == t(numpy.inf)
            else:
                ok = bool(numpy.isnan(u))
        info.update(ulp=repr(u), replayed=not bool(ok), witness_class="ulp %s" % meta.get("t"))
    return info


def obligations_array_form(rep):
    """BOUNDED (finite directed cases, never counted as proved): the ndarray branch of diff_ulp dispatches to the scalar branch
    element by element; what it returns must still be those integers."""
    import functional_algorithms.utils as U

    for t in (numpy.float16, numpy.float32, numpy.float64):
        fi = numpy.finfo(t)
        vals = [t(-numpy.pi), t(3.3), t(1), numpy.nextafter(t(1), t(2)), t(-2.5), t(0.1), t(0.0), t(-0.0), fi.max, -fi.max, fi.smallest_subnormal, -fi.smallest_normal, t(numpy.inf), t(numpy.nan)]
        fails = []
        n = 0
        shapes = [((0, 1, 2), (1, 3, 5)), ((0, 2), (1, 5)), ((8,), (9,)), ((2, 4, 13), (3, 13, 13)), ((0, 1, 8, 4), (1, 0, 9, 5)), ((12, 0), (0, 13))]
        with numpy.errstate(all="ignore"):
            for flush in (False, True):
                for equal_nan in (False, True):
                    for ix, iy in shapes:
                        for twod in (False, True):
                            x = numpy.array([vals[i] for i in ix], dtype=t)
                            y = numpy.array([vals[i] for i in iy], dtype=t)
                            if twod:
                                if len(ix) % 2:
                                    continue
                                x, y = x.reshape(2, -1), y.reshape(2, -1)
                            n += 1
                            want = [U.diff_ulp(a, b, flush_subnormals=flush, equal_nan=equal_nan) for a, b in zip(x.ravel(), y.ravel())]
                            try:
                                r = numpy.asarray(U.diff_ulp(x, y, flush_subnormals=flush, equal_nan=equal_nan))
                                got = [int(v) for v in r.ravel()]
                                ok = got == [int(w) for w in want] and r.shape == x.shape and r.dtype.kind in "iuO"
                                if not ok:
                                    fails.append(dict(x=[repr(v) for v in x.ravel()], y=[repr(v) for v in y.ravel()], shape=list(x.shape), flush=flush, equal_nan=equal_nan, got=[str(g) for g in got], want=[str(int(w)) for w in want], dtype=str(r.dtype)))
                            except Exception as e:
                                fails.append(dict(x=[repr(v) for v in x.ravel()], y=[repr(v) for v in y.ravel()], shape=list(x.shape), flush=flush, equal_nan=equal_nan, raised=repr(e)[:200]))
        rep.add(core.decided("C14/bounded/array-form/%s" % tname(t), PROP, not fails and n > 0, functions=("utils.diff_ulp",), text="bounded stand-in: diff_ulp on ndarrays returns the scalar distances of the elements, as integers (%d directed array pairs)" % n, detail=dict(failures=fails[:3], cases=n), kind="bounded", solver="native-run", meta=dict(part="bounded", fails=fails[:3], t=tname(t))))
    rep.bounded.append(dict(what="diff_ulp(ndarray, ndarray): elementwise equal to the scalar branch, integer result type (1-d and 2-d, distances below and above 2**63 together, non-finite elements, both flush and equal_nan settings)", bound="about 40 directed array pairs per format", counted_as_proved=False))


def build(tier):
    rep = core.Report(PROP, tier)
    rep.trust(
        "z3 5.1 FP/BV theories (cvc5 1.0.3 as fallback)",
        "E2 models of NumPy scalars (listed in assumptions; cross-checked against the real NumPy each run)",
        "NumPy scalar arithmetic on float16/32/64 = SMT-LIB FloatingPoint with roundNearestTiesToEven",
    )
    rep.assume(*symrun.MODELS_DOC)
    rep.assume("list/ndarray dispatch branches of diff_ulp are outside the proof (scalar and complex branches are under contract); the ndarray branch has a bounded stand-in")
    rep.extraction_drops.append("nothing from the function bodies: the code objects of utils.diff_ulp / diff_log2ulp / ulp are executed with shadowed builtins (isinstance,int,abs,type,bool,float) and a numpy proxy")
    rep.notes.append("one obligation per feasible path of the real code object; inputs range over ALL bit patterns of the format (including NaN/inf/subnormals)")
    rep.under_contract("utils.diff_ulp", ["finite: result == |rank(x)-rank(y)|", "flush=True: subnormals collapse to 0 / smallest normal", "non-finite: 0 or 2**bits", "complex: max of components (modular)"])
    rep.under_contract("utils.diff_log2ulp", ["bit_length of diff_ulp (modular)"])
    rep.under_contract("utils.ulp", ["nextafter identities", "ulp(-x)=ulp(x)", "ulp(0), ulp(inf), ulp(nan)"])
    crosscheck_models(rep)
    lattice_lemmas(rep)
    obligations_diff_ulp(rep, tier)
    obligations_complex(rep)
    obligations_log2(rep)
    obligations_ulp(rep)
    obligations_array_form(rep)
    # canary: the wrong spec |rank(x)+rank(y)| must be refutable
    t = numpy.float16
    x, y = z3.FP("x", fp_sort(t)), z3.FP("y", fp_sort(t))
    s = z3.Solver()
    s.add(finite(x), finite(y), spec_plain(x, y, t) != babs(rank(x, t) + rank(y, t)))
    rep.add(core.smt("C14/canary/sum-instead-of-difference", PROP, s, text="canary: |rx+ry| differs from |rx-ry| somewhere", expect="sat", kind="canary", budget_s=30))
    rep.replayers["C14/utils."] = native_replay
    rep.replayers["C14/bounded"] = lambda o: dict(replayed=bool((o.meta or {}).get("fails")), failing_inputs=(o.meta or {}).get("fails"), witness_class="array-form %s" % (o.meta or {}).get("t"))
    return rep


def main(tier, only=None):
    rep = build(tier)
    if only:
        rep.obls = [o for o in rep.obls if only in o.id]
    return rep.finish()


def replay(path):
    d = json.load(open(path))
    o = core.Obligation(id=d["obligation"], prop=PROP, model=d.get("model"), meta=d.get("meta") or {})
    info = native_replay(o)
    print(json.dumps(info, indent=1, default=str))
    return 1 if info.get("replayed") else 0
