"""C16 - polynomial utilities are exact polynomial algebra.

Functions under contract (the real code objects are executed, on ring elements):
  polynomial.fast_polynomial / fast_exponent_by_squaring / asrpolynomial / rpolynomial / multiply / add /
  derivative / taylorat / divmod,
  floating_point_algorithms.horner / fast_polynomial / fast_exponent_by_squaring / rpolynomial / laurent
  (through a ring-valued ctx: constant(v, like) = v, reciprocal(z) = 1/z).
Postconditions come from the property statement through the *spec functions* below (value(), dvalue()),
which are written independently of the code under verification.
Every instance is an identity in Q[x, c_0..c_N] (or its fraction field) decided by canonical forms: it
holds for every rational (indeed every commutative-ring) value of the coefficients and the argument.
Control flow of the code depends only on len(coeffs), flags and scheme - enumerated as the property
enumerates them - except divmod, whose zero tests on coefficients are forked exhaustively (ring.explore).
"""
from __future__ import annotations

import multiprocessing as mp
import os
import sys
import random
import time
import traceback
from fractions import Fraction

from vf import core
from vf.ring import NotLinear, Poly, Rat, V, explore, is_zero_test, _PATH

PROP = "C16"


# ------------------------------------------------------------------ spec functions (independent)
def value(coeffs, x):
    """sum coeffs[i] * x**i - the mathematical meaning of a coefficient list"""
    s = Rat.coerce(0)
    xp = Rat.coerce(1)
    for c in coeffs:
        s = s + Rat.coerce(c) * xp
        xp = xp * x
    return s


def power(x, n):
    r = Rat.coerce(1)
    for _ in range(n):
        r = r * x
    return r


class RingCtx:
    """ring-valued stand-in for the expression Context used by floating_point_algorithms helpers"""

    def constant(self, v, like=None):
        return Rat.coerce(v)

    def reciprocal(self, z):
        return Rat.coerce(1) / z


def gens(prefix, n):
    return [V("%s%02d" % (prefix, i)) for i in range(n)]


# ------------------------------------------------------------------ instances
def _schemes(mod):
    return {
        "default": None,
        "horner": mod.horner_scheme,
        "estrin": mod.estrin_dac_scheme,
        "balanced": mod.balanced_dac_scheme,
        "canonical": mod.canonical_scheme,
    }


def instances(tier):
    degs = list(range(0, 41))
    out = []
    for sch in ("default", "horner", "estrin", "balanced", "canonical"):
        for rev in (False, True):
            for N in degs:
                out.append(("polynomial.fast_polynomial", dict(scheme=sch, reverse=rev, N=N)))
                out.append(("floating_point_algorithms.fast_polynomial", dict(scheme=sch, reverse=rev, N=N)))
    for N in (499, 500, 501, 502) if tier == "quick" else (498, 499, 500, 501, 502, 503):
        for rev in (False, True):
            out.append(("polynomial.fast_polynomial", dict(scheme="default", reverse=rev, N=N)))
    for n in range(0, 65 if tier == "quick" else 130):
        out.append(("polynomial.fast_exponent_by_squaring", dict(n=n)))
        out.append(("floating_point_algorithms.fast_exponent_by_squaring", dict(n=n)))
    for rev in (False, True):
        for N in degs:
            out.append(("floating_point_algorithms.horner", dict(reverse=rev, N=N)))
            if N <= 12:
                out.append(("floating_point_algorithms.compensated_horner", dict(reverse=rev, N=N)))
            out.append(("polynomial.rpolynomial.asrpolynomial", dict(reverse=rev, N=N)))
            out.append(("floating_point_algorithms.rpolynomial", dict(reverse=rev, N=N)))
    mx = 12 if tier == "quick" else 20
    for rev in (False, True):
        for n in range(1, mx + 1):
            for m in sorted({1, 2, 3, n, max(1, n // 2), mx}):
                out.append(("polynomial.multiply", dict(reverse=rev, n=n, m=m)))
                out.append(("polynomial.add", dict(reverse=rev, n=n, m=m)))
        out.append(("polynomial.multiply", dict(reverse=rev, n=0, m=3, scalar="P")))
        out.append(("polynomial.multiply", dict(reverse=rev, n=3, m=0, scalar="Q")))
        out.append(("polynomial.add", dict(reverse=rev, n=0, m=3, scalar="P")))
        out.append(("polynomial.add", dict(reverse=rev, n=3, m=0, scalar="Q")))
    for rev in (False, True):
        for N in range(0, 31 if tier == "thorough" else 21):
            for n in (0, 1, 2, 3):
                out.append(("polynomial.derivative", dict(reverse=rev, N=N, n=n)))
        for N in range(0, 31 if tier == "thorough" else 17):
            out.append(("polynomial.taylorat", dict(reverse=rev, N=N, size=None)))
            if N >= 2:
                out.append(("polynomial.taylorat", dict(reverse=rev, N=N, size=N // 2)))
    # laurent: m from well below -len to above
    for sch in ("default", "estrin"):
        for rev in (False, True):
            for L in range(1, 8 if tier == "quick" else 10):
                for m in range(-L - 3, L + 4):
                    out.append(("floating_point_algorithms.laurent", dict(scheme=sch, reverse=rev, L=L, m=m)))
    # concrete corner cases of the quantifier the symbolic runs cannot present: Python-int coefficients, zero coefficients
    for N in (2, 3, 5):
        out.append(("concrete.int-coefficients", dict(N=N, what="asrpolynomial")))
        out.append(("concrete.int-coefficients", dict(N=N, what="divmod")))
    for N, z in ((2, 0), (2, 1), (3, 1), (3, 2), (2, 2), (3, 3)):
        out.append(("concrete.zero-coefficient", dict(N=N, zero_at=z)))
    # the context-based evaluators on the package's own contexts
    for cname in ("FractionContext", "Context"):
        for N in (0, 1, 4, 9):
            for what in ("horner", "fast_polynomial", "rpolynomial"):
                out.append(("contexts", dict(N=N, what=what, ctx=cname)))
        for m in (-6, -2, -1, 1, 3):
            out.append(("contexts", dict(N=3, what="laurent", ctx=cname, m=m)))
    # divmod: symbolic coefficients, every zero pattern reached by forking
    dm = 6  # larger degrees: the zero-test forking does not terminate in useful time for some generator orders
    for rev in (False, True):
        for n in range(0, dm + 1):
            for m in range(1, 4 + 1):
                out.append(("polynomial.divmod", dict(reverse=rev, n=n, m=m)))
    return out


def _id(fn, p):
    return "C16/%s/%s" % (fn, "/".join("%s=%s" % (k, p[k]) for k in sorted(p)))


# ------------------------------------------------------------------ one instance -> verdict
def run_instance(arg, concrete=None):
    """Returns (ok, detail).  With `concrete` (a function name -> Fraction), runs natively on Fractions
    (used by the replay): then ring elements are plain Fractions and the same spec is evaluated."""
    fn, p = arg
    import functional_algorithms.polynomial as P
    import functional_algorithms.floating_point_algorithms as F

    if concrete is None:
        mk = lambda name: V(name)  # noqa
        same = lambda a, b: Rat.coerce(a).same(Rat.coerce(b))  # noqa
        val = value
    else:
        mk = lambda name: concrete(name)  # noqa
        same = lambda a, b: a == b  # noqa

        def val(coeffs, x):
            return sum((c * x**i for i, c in enumerate(coeffs)), Fraction(0))

    x = mk("x")
    if fn.endswith("fast_polynomial"):
        N, rev = p["N"], p["reverse"]
        c = [mk("c%03d" % i) for i in range(N + 1)]
        mod = P if fn.startswith("polynomial") else F
        sch = _schemes(mod)[p["scheme"]]
        if mod is P:
            got = P.fast_polynomial(x, c, reverse=rev, scheme=sch)
        else:
            got = F.fast_polynomial(RingCtx() if concrete is None else FracCtx(), x, c, reverse=rev, scheme=sch)
        want = val(c[::-1] if rev else c, x)
        return same(got, want), dict(got=repr(got)[:300], want=repr(want)[:300])
    if fn.endswith("fast_exponent_by_squaring"):
        n = p["n"]
        if fn.startswith("polynomial"):
            got = P.fast_exponent_by_squaring(x, n)
        else:
            got = F.fast_exponent_by_squaring(RingCtx() if concrete is None else FracCtx(), x, n)
        want = val([0] * n + [1], x)
        return same(got, want), dict(got=repr(got)[:200])
    if fn == "floating_point_algorithms.horner":
        N, rev = p["N"], p["reverse"]
        c = [mk("c%03d" % i) for i in range(N + 1)]
        got = F.horner(RingCtx() if concrete is None else FracCtx(), x, c, reverse=rev)
        want = val(c[::-1] if rev else c, x)
        return same(got, want), dict(got=repr(got)[:300], want=repr(want)[:300])
    if fn == "floating_point_algorithms.compensated_horner":
        # modular: the callees mul_dekker / add_2sum are replaced by their CONTRACTS (C10): the pair they
        # return sums exactly to the product / sum, its first component being an arbitrary ring element
        import types

        N, rev = p["N"], p["reverse"]
        c = [mk("c%03d" % i) for i in range(N + 1)]
        cnt = [0]

        def fresh(tag):
            cnt[0] += 1
            return mk("%s%03d" % (tag, cnt[0]))

        def mul_dekker(ctx, a, b, **kw):
            h = fresh("h")
            return h, a * b - h

        def add_2sum(ctx, a, b, **kw):
            s_ = fresh("s")
            return s_, a + b - s_

        g = dict(F.__dict__)
        g["mul_dekker"] = mul_dekker
        g["add_2sum"] = add_2sum
        f = types.FunctionType(F.compensated_horner.__code__, g, "compensated_horner", F.compensated_horner.__defaults__)
        s_out, r_out = f(RingCtx() if concrete is None else FracCtx(), x, c, reverse=rev)
        want = val(c[::-1] if rev else c, x)
        return same(s_out + r_out, want), dict(got=repr(s_out + r_out)[:300], want=repr(want)[:300])
    if fn == "polynomial.rpolynomial.asrpolynomial":
        # ratio form <-> coefficient form (coefficients non-zero: they are generators, i.e. generic non-zero)
        N, rev = p["N"], p["reverse"]
        c = [mk("c%03d" % i) for i in range(N + 1)]
        if concrete is None:
            # division by a generator: non-zero is the precondition of the ratio form
            from vf.ring import Path, _normalise

            path = Path()
            path.nonzero = [_normalise(ci.n) for ci in c]
            _PATH[0] = path
        try:
            rc = P.asrpolynomial(c, reverse=rev)
            got = P.rpolynomial(x, rc, reverse=rev)
        finally:
            _PATH[0] = None
        want = val(c[::-1] if rev else c, x)
        return same(got, want), dict(got=repr(got)[:300], want=repr(want)[:300])
    if fn == "floating_point_algorithms.rpolynomial":
        N, rev = p["N"], p["reverse"]
        c = [mk("c%03d" % i) for i in range(N + 1)]
        if concrete is None:
            from vf.ring import Path, _normalise

            path = Path()
            path.nonzero = [_normalise(ci.n) for ci in c]
            _PATH[0] = path
        try:
            rc = P.asrpolynomial(c, reverse=rev)
            got = F.rpolynomial(RingCtx() if concrete is None else FracCtx(), x, rc, reverse=rev)
        finally:
            _PATH[0] = None
        want = val(c[::-1] if rev else c, x)
        return same(got, want), dict(got=repr(got)[:300], want=repr(want)[:300])
    if fn in ("polynomial.multiply", "polynomial.add"):
        n, m, rev = p["n"], p["m"], p["reverse"]
        A = [mk("p%03d" % i) for i in range(max(n, 1))]
        B = [mk("q%03d" % i) for i in range(max(m, 1))]
        argA, argB = A, B
        if p.get("scalar") == "P":
            argA = A[0]
        if p.get("scalar") == "Q":
            argB = B[0]
        f = P.multiply if fn.endswith("multiply") else P.add
        got = f(argA, argB, reverse=rev)
        if not isinstance(got, list):
            return False, dict(reason="result is not a list")
        a, b, g = (A[::-1], B[::-1], got[::-1]) if rev else (A, B, got)
        want = val(a, x) * val(b, x) if fn.endswith("multiply") else val(a, x) + val(b, x)
        return same(val(g, x), want), dict(got=repr(got)[:300])
    if fn == "polynomial.derivative":
        N, n, rev = p["N"], p["n"], p["reverse"]
        c = [mk("c%03d" % i) for i in range(N + 1)]
        got = P.derivative(c, n=n, reverse=rev)
        cc, g = (c[::-1], list(got)[::-1]) if rev else (c, list(got))
        # spec: n-fold formal derivative of sum cc[i] x^i : coefficient of x^k is cc[k+n] * (k+n)!/k!
        want = []
        for k in range(max(0, len(cc) - n)):
            f = 1
            for j in range(k + 1, k + n + 1):
                f *= j
            want.append(cc[k + n] * f)
        ok = len(g) == len(want) and all(same(u, v) for u, v in zip(g, want))
        return ok, dict(got=repr(got)[:300], want=repr(want)[:300])
    if fn == "polynomial.taylorat":
        N, rev, size = p["N"], p["reverse"], p["size"]
        c = [mk("c%03d" % i) for i in range(N + 1)]
        z0 = mk("z0")
        got = P.taylorat(c, z0, reverse=rev, size=size)
        cc, g = (c[::-1], got[::-1]) if rev else (c, got)
        if size is None:
            # sum C_m (x - z0)^m == sum P_m x^m
            want = val(cc, x)
            have = val(g, x - z0)
            return (len(g) == N + 1) and same(have, want), dict(got=repr(got)[:300])
        # truncated: C_m = P^(m)(z0)/m! for m < size
        ok = len(g) == size
        full = P.taylorat(cc, z0, reverse=False, size=None)
        ok = ok and all(same(u, v) for u, v in zip(g, full[:size]))
        return ok, dict(got=repr(got)[:300])
    if fn == "floating_point_algorithms.laurent":
        L, m, rev = p["L"], p["m"], p["reverse"]
        c = [mk("c%03d" % i) for i in range(L)]
        sch = _schemes(F)[p["scheme"]]
        if concrete is None:
            from vf.ring import Path, _normalise

            path = Path()
            path.nonzero = [_normalise(x.n)]  # z != 0 is the domain of a Laurent polynomial with negative powers
            _PATH[0] = path
        try:
            got = F.laurent(RingCtx() if concrete is None else FracCtx(), x, list(c), m, reverse=rev, scheme=sch)
        finally:
            _PATH[0] = None
        cc = c[::-1] if rev else c
        # spec: sum cc[j] * x**(j+m); compare after multiplying by x**K to stay polynomial
        K = max(0, -m)
        want = sum(((cc[j] * x ** (j + m + K)) for j in range(L)), 0 * x)
        have = got * x**K
        return same(have, want), dict(got=repr(got)[:300])
    if fn == "polynomial.divmod":
        return _divmod_instance(p, concrete)
    if fn == "concrete.int-coefficients":
        # Python ints are rationals: the conversions must stay exact on them
        rnd = random.Random(1000 + p["N"])
        cs = [rnd.choice([-7, -3, -2, -1, 1, 2, 3, 5, 7, 11]) for _ in range(p["N"] + 1)]
        xv = Fraction(rnd.randint(1, 5), rnd.randint(2, 7))
        want = sum((Fraction(ci) * xv**i for i, ci in enumerate(cs)), Fraction(0))
        if p["what"] == "asrpolynomial":
            got = P.rpolynomial(xv, P.asrpolynomial(list(cs)))
            return got == want, dict(coefficients=cs, x=str(xv), got=repr(got), want=str(want))
        D = [rnd.choice([-3, -2, 2, 3, 5]) for _ in range(max(1, p["N"] // 2))]
        Q, R = P.divmod(list(cs), list(D))
        ev = lambda lst: sum((Fraction(v) * xv**i for i, v in enumerate(lst)), Fraction(0))  # noqa
        exact = ev(cs) == ev(Q) * ev(D) + ev(R)  # Fraction(float) is the float's exact value
        return exact, dict(P=cs, D=D, Q=repr(Q)[:200], R=repr(R)[:200])
    if fn == "concrete.zero-coefficient":
        # the quantifier includes zero coefficients: coefficient form -> ratio form -> value
        cs = [Fraction(3), Fraction(4), Fraction(5, 2), Fraction(7)][: p["N"] + 1]
        cs[p["zero_at"]] = Fraction(0)
        xv = Fraction(2, 3)
        want = sum((ci * xv**i for i, ci in enumerate(cs)), Fraction(0))
        try:
            got = P.rpolynomial(xv, P.asrpolynomial(list(cs)))
        except ZeroDivisionError as e:
            return False, dict(coefficients=[str(v) for v in cs], raised=repr(e))
        return got == want, dict(coefficients=[str(v) for v in cs], got=str(got), want=str(want))
    if fn == "contexts":
        # the context-based evaluators on the package's own contexts (not only on the ring-valued one of this file)
        import functional_algorithms as fa
        import functional_algorithms.utils as U

        rnd = random.Random(2000 + p["N"])
        # dyadic rationals: exact as floats too, so the same data serve the tracing context
        cs = [Fraction(rnd.randint(-9, 9) or 1, rnd.choice([1, 2, 4])) for _ in range(p["N"] + 1)]
        xv = Fraction(rnd.choice([1, 3, 5]), rnd.choice([2, 4]))
        m = p.get("m", 0)
        want = sum((ci * xv ** (i + m) for i, ci in enumerate(cs)), Fraction(0))
        which, cname = p["what"], p["ctx"]
        if cname == "FractionContext":
            ctx = U.FractionContext()
            if which == "horner":
                got = F.horner(ctx, xv, list(cs), reverse=False)
            elif which == "fast_polynomial":
                got = F.fast_polynomial(ctx, xv, list(cs), reverse=False)
            elif which == "rpolynomial":
                got = F.rpolynomial(ctx, xv, P.asrpolynomial(list(cs), reverse=False), reverse=False)
            else:
                got = F.laurent(ctx, xv, list(cs), m, reverse=False)
            return got == want, dict(coefficients=[str(v) for v in cs], x=str(xv), got=str(got), want=str(want))
        # tracing context: trace, print for the Python target, evaluate the emitted function on Fractions
        import warnings

        def f(ctx, x: float):
            lst = [float(ci) for ci in cs]  # raw numbers: the evaluators wrap them as constants themselves
            if which == "horner":
                return F.horner(ctx, x, lst, reverse=False)
            if which == "fast_polynomial":
                return F.fast_polynomial(ctx, x, lst, reverse=False)
            if which == "rpolynomial":
                return F.rpolynomial(ctx, x, P.asrpolynomial(lst, reverse=False), reverse=False)
            return F.laurent(ctx, x, lst, m, reverse=False)

        with warnings.catch_warnings():
            warnings.simplefilter("ignore")
            c2 = fa.Context(paths=[fa.algorithms])
            g = c2.trace(f, float)
            src = g.tostring(fa.targets.python)
        ns = {}
        import math as _math

        exec(compile(src, "<emitted>", "exec"), dict(math=_math, Fraction=Fraction), ns)
        fun = next(v for v in ns.values() if callable(v))
        # dyadic data: every intermediate value is exact in double precision except the ratio form (divisions): tolerance there
        got = fun(float(xv))
        inexact = which == "rpolynomial" or (which == "laurent" and m < 0)  # divisions: not exact in double precision
        ok = (got == float(want)) if not inexact else abs(got - float(want)) <= 1e-12 * max(1.0, abs(float(want)))
        return ok, dict(coefficients=[str(v) for v in cs], x=str(xv), got=repr(got), want=str(want))
    raise KeyError(fn)


class FracCtx:
    def constant(self, v, like=None):
        return Fraction(v)

    def reciprocal(self, z):
        return 1 / Fraction(z)


def _divmod_instance(p, concrete):
    import functional_algorithms.polynomial as P

    n, m, rev = p["n"], p["m"], p["reverse"]
    if concrete is not None:
        A = [concrete("p%03d" % i) for i in range(n)]
        B = [concrete("q%03d" % i) for i in range(m)]
        if all(b == 0 for b in B):
            return True, dict(skipped="D = 0 outside the precondition")
        Q, R = P.divmod(A, B, reverse=rev)
        a, b, q, r = (A[::-1], B[::-1], Q[::-1], R[::-1]) if rev else (A, B, Q, R)
        xx = concrete("x")
        ev = lambda cs: sum((c * xx**i for i, c in enumerate(cs)), Fraction(0))  # noqa
        degD = max(i for i, v in enumerate(b) if v != 0)
        degR = max((i for i, v in enumerate(r) if v != 0), default=-1)
        ok = ev(a) == ev(q) * ev(b) + ev(r) and degR < degD
        return ok, dict(Q=str(Q), R=str(R), degR=degR, degD=degD)
    inputs = {}
    for i in range(n):
        inputs["p%03d" % i] = V("p%03d" % i)
    for i in range(m):
        inputs["q%03d" % i] = V("q%03d" % i)
    x = V("x")
    npaths = 0
    fails = []

    def run(inp, path):
        A = [inp["p%03d" % i] for i in range(n)]
        B = [inp["q%03d" % i] for i in range(m)]
        a, b = (A[::-1], B[::-1]) if rev else (A, B)  # ascending order
        # precondition D != 0: decide which coefficient leads (forks on the path like the code does)
        degD = -1
        for i in range(len(b) - 1, -1, -1):
            if not (b[i] == 0):
                degD = i
                break
        if degD < 0:
            return ("pre-false", None)
        Q, R = P.divmod(list(A), list(B), reverse=rev)
        q, r = (Q[::-1], R[::-1]) if rev else (Q, R)
        ident = value(a, x).same(value(q, x) * value(b, x) + value(r, x))
        # deg R < deg D: every coefficient of r at index >= degD must be zero on this path
        degok = True
        for i in range(degD, len(r)):
            if not (r[i] == 0):
                degok = False
        if ident and degok:
            return ("ok", None)
        # concretise this path: random rational values for the remaining generators, native run on Fractions
        wit = None
        rnd = random.Random(core.SEED)
        for _ in range(40):
            env = {"x": Fraction(rnd.randint(2, 9))}
            for k in inp:
                env[k] = Fraction(rnd.randint(-9, 9) or 1, rnd.randint(1, 3))
            try:
                conc = {k: Rat.coerce(v).eval(env) for k, v in inp.items()}
            except ZeroDivisionError:
                continue
            conc["x"] = env["x"]
            try:
                ok2, det2 = _divmod_instance(p, lambda name, c=conc: c[name])
            except Exception:
                ok2, det2 = False, dict(raised=traceback.format_exc()[-600:])
            if ok2 is False:
                wit = dict(inputs={k: str(v) for k, v in conc.items()}, native=det2)
                break
        return ("fail", dict(ident=ident, degok=degok, Q=repr(Q)[:200], R=repr(R)[:200], inputs={k: repr(v) for k, v in inp.items()}, witness=wit))

    try:
        for inp, path, res in explore(run, inputs):
            npaths += 1
            if res[0] == "fail":
                fails.append(res[1])
    except NotLinear as e:
        return None, dict(reason="zero test not linear in any input: outside the decidable subset", factor=repr(e.args[0]))
    return (not fails), dict(paths=npaths, fails=fails[:3])


def _job(arg):
    t0 = time.time()
    trace = os.environ.get("VERIF_TRACE")
    if trace:
        print("C16 start %s" % _id(*arg), file=sys.stderr, flush=True)
    try:
        ok, detail = run_instance(arg)
        if trace:
            print("C16 done %.1fs %s" % (time.time() - t0, _id(*arg)), file=sys.stderr, flush=True)
        return arg, ok, detail, time.time() - t0, None
    except ZeroDivisionError as e:
        if str(e).startswith("ring:"):
            # the path-splitting engine could not eliminate a generator on this path: undecided, not a refutation
            return arg, None, dict(engine_limit=str(e)), time.time() - t0, None
        return arg, False, dict(raised=traceback.format_exc()[-1200:]), time.time() - t0, "raised"
    except Exception:
        # an exception of the real code on a well-formed input is a refutation ("raises")
        return arg, False, dict(raised=traceback.format_exc()[-1200:]), time.time() - t0, "raised"


def _run_pool(inst, budget):
    """All instances through a fork pool.  A whole run takes well under a minute; once (in some fifty runs) a run did not
    come back within an hour for a reason that did not reproduce (a lost worker or a path exploration that depends on
    object addresses).  So: a watchdog; instances without a result within the budget are run again in a fresh pool, and
    only after three attempts reported as undecided (never as a verdict)."""
    pending = {_id(*a): a for a in inst}
    results = []
    ctx = mp.get_context("fork")
    for attempt in range(3):
        if not pending:
            break
        pool = ctx.Pool(core.NPROC)
        try:
            it = pool.imap_unordered(_job, list(pending.values()), chunksize=1)
            deadline = time.time() + budget
            while pending:
                try:
                    r = it.next(timeout=max(1.0, deadline - time.time()))
                except mp.TimeoutError:
                    print("C16: %d instance(s) without a result after %d s (attempt %d): %s" % (len(pending), budget, attempt + 1, sorted(pending)[:4]), file=sys.stderr, flush=True)
                    break
                results.append(r)
                pending.pop(_id(*r[0]), None)
        finally:
            pool.terminate()
            pool.join()
    for a in pending.values():
        results.append((a, None, dict(engine_limit="no result within %d s in 3 attempts" % budget), 0.0, None))
    order = {_id(*a): i for i, a in enumerate(inst)}
    results.sort(key=lambda r: order[_id(*r[0])])
    return results


# ------------------------------------------------------------------ replay of a refuted instance
def replay_instance(arg, seed=0, detail=None):
    """Find concrete rational inputs on which the REAL function (run natively on Fractions) disagrees
    with the spec.  Ring identities that fail do so on a Zariski-open set, so small values suffice."""
    rnd = random.Random(seed)
    tries = []
    if detail and isinstance(detail, dict):
        for fl in detail.get("fails", []) or []:
            w = fl.get("witness")
            if w:
                conc = {k: Fraction(v) for k, v in w["inputs"].items()}
                try:
                    ok, det = run_instance(arg, concrete=lambda name: conc[name])
                except Exception:
                    ok, det = False, dict(raised=traceback.format_exc()[-800:])
                if ok is False:
                    return dict(replayed=True, inputs=w["inputs"], native=det)
    for attempt in range(60):
        cache = {}

        def conc(name, cache=cache, attempt=attempt):
            if name not in cache:
                if attempt == 0:
                    cache[name] = Fraction(5) if name == "x" else Fraction((int(name[1:]) + 1 if name[1:].isdigit() else 3) + 10 * (ord(name[0]) - 99))
                else:
                    cache[name] = Fraction(rnd.randint(-7, 7) or 1, rnd.randint(1, 3))
                    if name[0] in "pq" and attempt % 3 == 2 and rnd.random() < 0.4:
                        cache[name] = Fraction(0)
            return cache[name]

        try:
            ok, detail = run_instance(arg, concrete=conc)
        except Exception:
            ok, detail = False, dict(raised=traceback.format_exc()[-800:])
        if ok is False:
            return dict(replayed=True, inputs={k: str(v) for k, v in sorted(cache.items())}, native=detail)
        tries.append(1)
    return dict(replayed=False, tried=len(tries))


def witness_class(arg):
    fn, p = arg
    if fn.startswith("concrete."):
        return fn  # one cause per family: the instances only vary the data
    return "%s %s" % (fn, " ".join("%s=%s" % (k, p[k]) for k in sorted(p)))


# ------------------------------------------------------------------ main
FUNCTIONS = [
    "polynomial.fast_polynomial",
    "polynomial.fast_exponent_by_squaring",
    "polynomial.rpolynomial.asrpolynomial",
    "polynomial.multiply",
    "polynomial.add",
    "polynomial.derivative",
    "polynomial.taylorat",
    "polynomial.divmod",
    "floating_point_algorithms.horner",
    "floating_point_algorithms.compensated_horner",
    "floating_point_algorithms.fast_polynomial",
    "floating_point_algorithms.fast_exponent_by_squaring",
    "floating_point_algorithms.rpolynomial",
    "floating_point_algorithms.laurent",
]


def build(tier, only=None):
    rep = core.Report(PROP, tier)
    rep.trust(
        "CPython executing the real code objects of functional_algorithms.polynomial / floating_point_algorithms",
        "vf/ring.py: canonical-form arithmetic in Q[vars] and its fraction field (equality by cross-multiplication)",
        "sympy.factor_list (only to split zero tests into irreducible factors in divmod; a wrong factorisation can only make paths redundant or raise NotLinear, never discharge a false identity)",
        "fractions.Fraction",
    )
    rep.assume(
        "coefficients and arguments range over a commutative Q-algebra (the statement says exact rational arithmetic)",
        "ratio form: coefficients non-zero (domain of asrpolynomial); Laurent with negative powers: z != 0; divmod: D != 0",
        "ring-valued ctx for floating_point_algorithms helpers: ctx.constant(v, like) = v, ctx.reciprocal(z) = 1/z (the only ctx methods these helpers call)",
    )
    rep.extraction_drops.append("nothing: the imported functions are executed as they are; only the values are symbolic")
    rep.notes.append("each obligation is an identity of canonical forms, symbolic in all coefficients and the argument; degrees/flags/schemes are enumerated exactly as the property's quantifier does (0..40 + the len>500 scheme switch)")
    for f in FUNCTIONS:
        rep.under_contract(f, "result == spec (value of the polynomial / exact algebra), all flags")
    inst = instances(tier)
    if only:
        inst = [a for a in inst if only in _id(*a)]
    # big ones first
    inst.sort(key=lambda a: -(a[1].get("N", 0) + 40 * (a[0] == "polynomial.divmod") * (a[1].get("n", 0) + a[1].get("m", 0))))
    results = _run_pool(inst, 600 if tier == "quick" else 1200)
    for arg, ok, detail, dt, raised in results:
        fn, p = arg
        # divmod beyond degree 6 (thorough tier): attempted, not claimed (the forking engine meets paths it cannot split)
        claimed = not (fn == "polynomial.divmod" and p.get("n", 0) > 6)
        o = core.decided(_id(fn, p), PROP, ok, functions=(fn,), text="%s %s: result equals the spec polynomial identically" % (fn, p), detail=detail, claimed=claimed, meta=dict(arg=[fn, p]), solver="ring-normal-form")
        o.seconds = dt
        rep.add(o)
    # canary: a deliberately wrong spec must be refuted (engine not blind)
    x = V("x")
    c = gens("c", 4)
    import functional_algorithms.polynomial as P

    wrong = value(c[:-1], x)  # drops the top coefficient
    got = P.fast_polynomial(x, c, scheme=P.horner_scheme)
    rep.add(core.decided("C16/canary/dropped-top-coefficient", PROP, not Rat.coerce(got).same(wrong), functions=(), text="canary: Horner result must differ from the polynomial without its top term", kind="canary"))
    rep.replayers["C16/"] = _replayer
    return rep


def _replayer(o):
    arg = o.meta.get("arg")
    if not arg:
        return dict(replayed=False, witness_class=None)
    arg = (arg[0], arg[1])
    info = replay_instance(arg, core.SEED, o.detail)
    info["witness_class"] = witness_class(arg)
    return info


def main(tier, only=None):
    rep = build(tier, only)
    return rep.finish()


def replay(path):
    import json

    with open(path) as f:
        d = json.load(f)
    arg = d["meta"]["arg"]
    info = replay_instance((arg[0], arg[1]), core.SEED, d.get("detail"))
    print(json.dumps(info, indent=1))
    return 1 if info.get("replayed") else 0
