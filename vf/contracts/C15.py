"""C15 - multiprecision reference values are rounded correctly to the target type.

utils.mpf2float: the real code object runs on a symbolic mpf (E2).  The callee mpmath.libmp.libmpf._normalize is
replaced by its (assumed) contract:  given V = (-1)^sign * man0 * 2^exp0, it returns (sign, man, exp, bc) with
man * 2^exp = RNE_p(V), man odd, bc = bit_length(man) <= p  - of which the obligations use the consequences
    man odd, 0 < man < 2^p, bc = bit_length(man), exp + bc in {exp0 + bc0, exp0 + bc0 + 1}, carry => man = 1.
Postcondition (from the statement), with V' = man * 2^exp the value rounded to p bits:
    2^emin <= |V'| <= largest  =>  result is exactly V' (= RN(V), the nearest float, which is normal)
    |V'| >= 2^(emax+1)         =>  result is inf of the right sign
    |V'| <  2^(emin-p)         =>  result is a zero of the right sign (half the smallest subnormal)
    2^(emin-p) < |V| < 2^(emin-p+1), no flushing  =>  result is the smallest subnormal of the right sign (V the input)
    flush requested and |V'| < 2^emin => zero of the right sign;   the sign of every result is the sign of V
Option plumbing: flush_subnormals in {unspecified, False, True} must reach mpf2float as False, False, True; the
extra precision requested is int(prec * multiplier) + extra_prec (finite-case runs of the real methods).
"""
from __future__ import annotations

import json
import traceback
import types

import numpy
import z3

from vf import core, symrun
from vf.symrun import FMT, UINT, SymBV, SymDType, SymFP, SymInt, explore, reglobal, side_vc, vc

PROP = "C15"
W = 64
TYPES = [numpy.float16, numpy.float32, numpy.float64]


class FakeCtx:
    def __init__(self, prec):
        self._prec_rounding = [prec, "n"]

    def isfinite(self, x):
        return True

    def isnan(self, x):
        return False

    def isinf(self, x):
        return False


class FakeMpf:
    def __init__(self, ctx, tup):
        self.context = ctx
        self._mpf_ = tup


def run_mpf2float(rep, tier):
    import functional_algorithms.utils as U

    fn = ("utils.mpf2float",)
    for t in TYPES:
        eb, p = FMT[t]
        emax = (1 << (eb - 1)) - 1
        emin = 1 - emax
        for sign in (0, 1):
            for flush in (False, True):
                man0, exp0, bc0 = (z3.BitVec(n, W) for n in ("man0", "exp0", "bc0"))
                man, exp, bc = (z3.BitVec(n, W) for n in ("man", "exp", "bc"))
                calls = []

                def normalize(s, m, e, b, prec, rnd, calls=calls):
                    calls.append((s, m, e, b, prec, rnd))
                    return (s, SymInt(man), SymInt(exp), SymInt(bc))

                class LibMpf:
                    _normalize = staticmethod(normalize)

                class LibMp:
                    libmpf = LibMpf

                class MpmathShadow:
                    libmp = LibMp

                g = reglobal(U, extra=dict(mpmath=MpmathShadow))
                f = g["mpf2float"]

                def run(e, t=t, sign=sign, flush=flush, f=f, calls=calls):
                    del calls[:]
                    # input tuple (before normalisation): any positive mantissa, any exponent
                    e.assume(man0 > 0)
                    e.assume(z3.Extract(0, 0, man0) == 1)  # mpmath keeps the mantissa of a non-zero mpf odd
                    e.assume(z3.And(exp0 > -3000, exp0 < 3000, bc0 > 0, bc0 < 4000))
                    # contract of _normalize (consequences of man*2^exp = RNE_p(V))
                    e.assume(z3.And(man > 0, man < (1 << p), z3.Extract(0, 0, man) == 1))
                    e.assume(z3.Or([z3.And(bc == k, man >= (1 << (k - 1)), man < (1 << k)) for k in range(1, p + 1)]))
                    e.assume(z3.And(exp > -4000, exp < 4000))
                    e0, e1 = exp0 + bc0, exp + bc
                    e.assume(z3.Or(e1 == e0, z3.And(e1 == e0 + 1, man == 1)))
                    x = FakeMpf(FakeCtx(53), (sign, SymInt(man0), SymInt(exp0), SymInt(bc0)))
                    return f(SymDType(t), x, flush_subnormals=flush)

                try:
                    paths = explore(run, int_width=W, max_paths=200)
                except symrun.Unsupported as u:
                    rep.add(core.decided("C15/utils.mpf2float/%s/sign=%d/flush=%s/engine" % (t.__name__, sign, flush), PROP, None, functions=fn, text="outside the subset: %s" % u))
                    continue
                base0 = "C15/utils.mpf2float/%s/sign=%d/flush=%s" % (t.__name__, sign, flush)
                # the precision handed to _normalize must be the target precision, rounding to nearest
                okcall = bool(calls) and calls[-1][4] == p and calls[-1][5] == "n"
                rep.add(core.decided(base0 + "/normalize-called-with-target-precision", PROP, okcall, functions=fn, text="_normalize(..., prec=%d, rounding='n')" % p, detail=dict(call=repr(calls[-1][4:]) if calls else None)))
                S = z3.FPSort(eb, p)
                for pth in paths:
                    base = base0 + "/path=%s" % pth.sig()
                    meta = dict(t=t.__name__, sign=sign, flush=flush)
                    if pth.exc is not None:
                        rep.add(core.smt(base + "/no-exception", PROP, vc(pth, z3.BoolVal(False)), functions=fn, text="raised %r on a feasible path" % (pth.exc,), budget_s=120, meta=meta))
                        continue
                    r = pth.result
                    if isinstance(r, numpy.floating):
                        if type(r) is not t:
                            rep.add(core.decided(base + "/dtype", PROP, False, functions=fn, text="returned %r" % type(r)))
                            continue
                        re_ = symrun.fpval(r, (eb, p))
                    elif isinstance(r, SymFP) and r.t is t:
                        re_ = r.e
                    else:
                        rep.add(core.decided(base + "/dtype", PROP, False, functions=fn, text="returned %r" % type(r)))
                        continue
                    # spec for the normal range, written directly from the IEEE encoding: V' = man * 2^exp has bc <= p bits,
                    # so it is representable: exponent field e1 - 1 + bias, fraction = man aligned to p bits without its leading 1
                    e1 = exp + bc  # |V'| in [2^(e1-1), 2^e1)
                    bias = emax
                    aligned = man << (z3.BitVecVal(p, W) - bc)
                    spec_bits = z3.Concat(z3.BitVecVal(sign, 1), z3.Extract(eb - 1, 0, e1 - 1 + bias), z3.Extract(p - 2, 0, aligned))
                    normal = z3.And(e1 - 1 >= emin, e1 <= emax + 1)
                    over = e1 > emax + 1
                    tiny = e1 <= emin - p  # |V'| < 2^(emin-p): below half the smallest subnormal
                    subn = e1 - 1 < emin
                    neg = z3.BoolVal(bool(sign))
                    signed_zero = z3.And(z3.fpIsZero(re_), z3.fpIsNegative(re_) == neg)
                    # strictly between half the smallest subnormal and the smallest subnormal (on the UNROUNDED input: its
                    # mantissa is odd, so it is a power of two exactly when the mantissa is 1): the nearest value is the
                    # smallest subnormal, and "zero below half the smallest subnormal" does not cover it
                    above_half = z3.And(z3.Not(z3.BoolVal(flush)), exp0 + bc0 == emin - p + 1, man0 != 1)
                    smallest_bits = z3.Concat(z3.BitVecVal(sign, 1), z3.BitVecVal(1, eb + p - 1))
                    goal = z3.And(
                        z3.Implies(above_half, z3.fpToIEEEBV(re_) == smallest_bits),
                        z3.Implies(z3.And(normal, z3.Not(z3.And(z3.BoolVal(flush), subn))), z3.fpToIEEEBV(re_) == spec_bits),
                        z3.Implies(over, z3.And(z3.fpIsInf(re_), z3.fpIsNegative(re_) == neg)),
                        z3.Implies(tiny, signed_zero),
                        z3.Implies(z3.And(z3.BoolVal(flush), subn), signed_zero),
                        z3.Not(z3.fpIsNaN(re_)),
                        z3.Or(z3.fpIsZero(re_), z3.fpIsNegative(re_) == neg),
                    )
                    rep.add(core.smt(base + "/correctly-rounded", PROP, vc(pth, goal), functions=fn, text="normal: exactly the p-bit rounded value; overflow: signed inf; below half the smallest subnormal (or subnormal with flushing): signed zero", budget_s=300, meta=meta))
                    sv = side_vc(pth)
                    if sv:
                        rep.add(core.smt(base + "/int-model-no-overflow", PROP, sv, functions=fn, kind="lemma", budget_s=120))
                # covers: each regime is reachable
                for name, cond in (("normal", lambda e1: z3.And(e1 - 1 >= emin, e1 <= emax + 1)), ("overflow", lambda e1: e1 > emax + 1), ("tiny", lambda e1: e1 <= emin - p)):
                    s = z3.Solver()
                    s.add(man > 0, man < (1 << p), z3.Extract(0, 0, man) == 1, cond(exp + bc), exp > -3000, exp < 3000, bc > 0, bc <= p)
                    rep.add(core.smt(base0 + "/cover/" + name, PROP, s, functions=fn, text="cover: regime reachable", expect="sat", kind="cover", budget_s=20))


def plumbing(rep):
    """finite-case runs of the real option plumbing"""
    import functional_algorithms.utils as U

    fn_init = ("utils.vectorize_with_mpmath.__init__",)
    want = {"unspecified": False, "False": False, "True": True}
    for name, kw in (("unspecified", {}), ("False", dict(flush_subnormals=False)), ("True", dict(flush_subnormals=True))):
        v = U.vectorize_with_mpmath(lambda x: x, **kw)
        got = v.flush_subnormals
        # what reaches mpf2float through mptonp
        seen = []
        g = dict(U.__dict__)
        g["mpf2float"] = lambda dtype, x, flush_subnormals=False, **k: seen.append(flush_subnormals) or dtype(0)
        mptonp = types.FunctionType(U.vectorize_with_mpmath.mptonp.__code__, g, "mptonp")
        ctx = v.contexts["float32"]
        mptonp(v, ctx.mpf(1.5))
        reached = seen[-1] if seen else None
        ok = bool(reached) == want[name] and reached is not None
        rep.add(core.decided("C15/plumbing/flush_subnormals=%s" % name, PROP, ok, functions=fn_init + ("utils.vectorize_with_mpmath.mptonp",), text="flush_subnormals %s must reach mpf2float as %s (reached: %r; attribute: %r)" % (name, want[name], reached, got), meta=dict(flush=name, reached=repr(reached), attribute=repr(got))))
    # extra precision: backend_context must request int(prec * multiplier) + extra_prec additional bits
    fn_bc = ("utils.vectorize_with_mpmath.backend_context",)
    bad = []
    n = 0
    from fractions import Fraction

    for mult in (0, 1, 2, 0.5, 1.5, 2.75, 3):
        for extra in (0, 3, 10):
            for prec in (11, 24, 53):
                v = U.vectorize_with_mpmath(lambda x: x, extra_prec_multiplier=mult, extra_prec=extra, flush_subnormals=False)

                class C:
                    def __init__(self):
                        self.prec = prec
                        self.asked = None

                    def extraprec(self, n):
                        self.asked = n
                        return self

                c = C()
                v.backend_context(c)
                n += 1
                want_bits = int(Fraction(mult) * prec) + extra
                if c.asked != want_bits:
                    bad.append((mult, extra, prec, c.asked, want_bits))
    rep.add(core.decided("C15/plumbing/extra-precision", PROP, not bad, functions=fn_bc, text="%d (multiplier, extra_prec, prec) cases: working precision is prec + int(prec*multiplier) + extra_prec" % n, detail=dict(bad=bad[:5]), meta=dict(bad=[list(map(str, b)) for b in bad[:3]])))


def native_replay(o):
    import mpmath

    import functional_algorithms.utils as U

    meta = o.meta or {}
    if "flush" in meta and "reached" in meta:
        return dict(replayed=True, witness_class="flush_subnormals=%s reaches mpf2float as %s" % (meta["flush"], meta["reached"]), reached=meta["reached"])
    if meta.get("bad"):
        return dict(replayed=True, witness_class="extra precision %s" % meta["bad"][0], bad=meta["bad"])
    m = o.model or {}
    if "t" not in meta or "man" not in m:
        return dict(replayed=False, witness_class=None)
    t = getattr(numpy, meta["t"])
    eb, p = FMT[t]

    def sval(name):
        v = m[name]["value"]
        return v - (1 << W) if v >= 1 << (W - 1) else v

    from fractions import Fraction

    emax = (1 << (eb - 1)) - 1
    emin = 1 - emax
    cands = []
    if "man0" in m:
        cands.append((m["man0"]["value"], sval("exp0")))
    man, exp = m["man"]["value"], sval("exp")
    # values that the p-bit rounding maps to man * 2^exp: itself, and neighbours a little below / above
    cands += [(man, exp), (man * 256 - 1, exp - 8), (man * 256 + 1, exp - 8), (man * 256 - 127, exp - 8), ((man << (p + 4)) - 1, exp - (p + 4)), ((man << (p + 4)) + 1, exp - (p + 4))]
    info = dict(witness_class="mpf2float %s flush=%s" % (meta["t"], meta["flush"]), replayed=False, tried=[])
    for man0, exp0 in cands:
        ctx = mpmath.mp.clone()
        ctx.prec = max(p + 10, man0.bit_length() + 2)
        x = ctx.make_mpf(mpmath.libmp.from_man_exp(man0 * (-1 if meta["sign"] else 1), exp0))
        try:
            got = U.mpf2float(t, x, flush_subnormals=meta["flush"])
        except Exception as ex:
            info.update(replayed=True, raised=repr(ex), man0=man0, exp0=exp0)
            return info
        V = Fraction(man0) * Fraction(2) ** exp0 * (-1 if meta["sign"] else 1)
        a = abs(V)
        e = a.numerator.bit_length() - a.denominator.bit_length()
        if Fraction(2) ** e > a:
            e -= 1
        q = Fraction(2) ** (max(e, emin) - (p - 1))
        n = a / q
        k = n.numerator // n.denominator
        rem = n - k
        if rem > Fraction(1, 2) or (rem == Fraction(1, 2) and k % 2 == 1):
            k += 1
        ref = k * q
        if ref >= Fraction(2) ** (emax + 1):
            want = t(numpy.inf)
        else:
            want = t(float(ref))
        want = -want if V < 0 else want
        normal = ref >= Fraction(2) ** emin
        if meta["flush"] and not normal:
            want = t(-0.0) if V < 0 else t(0.0)
        decided_case = normal or bool(numpy.isinf(want)) or meta["flush"] or a < Fraction(2) ** (emin - p) or Fraction(2) ** (emin - p) < a < Fraction(2) ** (emin - p + 1)
        bad = decided_case and not (got == want and numpy.signbit(got) == numpy.signbit(want))
        info["tried"].append(dict(man0=str(man0)[:40], exp0=exp0, got=repr(got), want=repr(want)))
        if bad:
            info.update(replayed=True, man0=str(man0), exp0=exp0, got=repr(got), want=repr(want))
            return info
    return info


def build(tier):
    rep = core.Report(PROP, tier)
    rep.trust("z3 5.1 QF_BV/QF_FP", "E2 models: dtype(int) = RNE conversion, numpy.ldexp(x, k) = one correctly rounded scaling, numpy.isinf/isfinite, Python ints as 64-bit vectors with no-overflow side obligations")
    rep.assume(
        "mpmath.libmp.libmpf._normalize(sign, man, exp, bc, prec, 'n') returns the value rounded to prec bits, ties to even, with an odd mantissa and bc = bit_length(man) (ASSUMED contract on mpmath; only consequences are used)",
        "the mpf is finite and non-zero with an odd mantissa (the invariant mpmath keeps for every mpf it constructs); exponents within +-3000 (every format's range is far inside)",
        "the evaluation of the user function inside mpmath at the extended precision, and the resulting double rounding, are outside any contract here",
        "float2mpf / nptomp exactness is C13's obligation",
    )
    rep.extraction_drops.append("list dispatch and the nan/inf branches of mpf2float are not exercised symbolically")
    rep.under_contract("utils.mpf2float", ["correct rounding in the normal range; signed inf / signed zero thresholds; flushing; sign"])
    rep.under_contract("utils.vectorize_with_mpmath.__init__", ["flush_subnormals plumbing"])
    rep.under_contract("utils.vectorize_with_mpmath.mptonp", ["passes the instance's flush setting to mpf2float"])
    rep.under_contract("utils.vectorize_with_mpmath.backend_context", ["working precision"])
    run_mpf2float(rep, tier)
    try:
        plumbing(rep)
    except Exception:
        rep.add(core.decided("C15/plumbing/engine", PROP, core.ERROR, text=traceback.format_exc()[-1200:]))
    # canary: the wrong threshold emax instead of emax+1 would be visible
    e1 = z3.BitVec("e1", W)
    s = z3.Solver()
    s.add(e1 > 127, z3.Not(e1 > 128))
    rep.add(core.smt("C15/canary/overflow-threshold", PROP, s, text="canary: thresholds emax and emax+1 differ", expect="sat", kind="canary", budget_s=10))
    rep.replayers["C15/"] = native_replay
    # bounded stand-in with the real mpmath (the assumed _normalize contract, mpf2float, the backend protocol); never proofs
    from vf.contracts import C15_bounded

    C15_bounded.run(rep, tier)
    rep.replayers["C15/bounded"] = C15_bounded.replay
    return rep


def main(tier, only=None):
    rep = build(tier)
    if only:
        rep.obls = [o for o in rep.obls if only in o.id]
    return rep.finish()


def replay(path):
    d = json.load(open(path))
    o = core.Obligation(id=d["obligation"], prop=PROP, model=d.get("model"), meta=d.get("meta") or {})
    if (o.meta or {}).get("part") == "bounded":
        print(json.dumps(o.meta.get("fails"), indent=1, default=str))
        return 1 if o.meta.get("fails") else 0
    info = native_replay(o)
    print(json.dumps(info, indent=1, default=str))
    return 1 if info.get("replayed") else 0
