"""C06 - StableHLO / XLA-client output is a faithful rendering of the graph.

Parse-back contract of the real printers, decided per operation kind (induction step of a structural induction):
  O1  operator tables: every kind maps to the operator of an independent inventory of StableHLO / CHLO operators
      (resp. XLA client builder functions) that implements it; an operator that is not in the inventory is a finding.
  O2  stablehlo.Printer.tostring: for every kind and every operand-state combination the emitted TableGen dag,
      parsed back by an independent dag parser, is isomorphic to the node: operator of the spec, operands in order,
      comparison direction = kind, `:$ref` binding present iff need_ref, bound at most once and before any `$ref`
      use, ConstantLike attached to a defined operand, named constants mapped per spec.
  O3  xla_client: templates are builder calls `Name(args in order)` with the spec's name (shared PrinterBase step is
      C05/O2's obligation, re-run here for this printer); constants print as ScalarLike(<like ref>, <value>) with the
      like reference defined.
"""
from __future__ import annotations

import itertools
import json
import re
import traceback
import warnings

from vf import core

PROP = "C06"

# inventory of operators, written from the public StableHLO / CHLO dialect definitions (op class names)
STABLEHLO_OPS = set(
    """AbsOp AddOp AndOp Atan2Op CbrtOp CeilOp ClampOp CompareOp ComplexOp ConstantOp ConvertOp CosineOp DivOp ExpOp Expm1Op FloorOp
ImagOp IsFiniteOp LogOp Log1pOp LogisticOp MaxOp MinOp MulOp NegOp NotOp OrOp PopulationCountOp PowOp RealOp RemOp RoundOp
RoundNearestEvenOp RsqrtOp SelectOp ShiftLeftOp ShiftRightArithmeticOp ShiftRightLogicalOp SignOp SineOp SqrtOp SubtractOp TanOp TanhOp XorOp""".split()
)
CHLO_OPS = set("AcosOp AcoshOp AsinOp AsinhOp AtanOp AtanhOp BesselI1eOp ConjOp CoshOp DigammaOp ErfOp ErfcOp ErfInvOp IsInfOp IsNegInfOp IsPosInfOp LgammaOp NextAfterOp PolygammaOp SinhOp TanOp ZetaOp AsinAcosKernelOp SquareOp".split())
# which operator implements which kind (independent of the repository's table)
KIND_OP = dict(
    absolute="StableHLO_AbsOp", negative="StableHLO_NegOp", add="StableHLO_AddOp", subtract="StableHLO_SubtractOp", multiply="StableHLO_MulOp", divide="StableHLO_DivOp",
    remainder="StableHLO_RemOp", pow="StableHLO_PowOp", logical_and="StableHLO_AndOp", logical_or="StableHLO_OrOp", logical_xor="StableHLO_XorOp", logical_not="StableHLO_NotOp",
    bitwise_and="StableHLO_AndOp", bitwise_or="StableHLO_OrOp", bitwise_xor="StableHLO_XorOp", bitwise_invert="StableHLO_NotOp",
    bitwise_left_shift="StableHLO_ShiftLeftOp", bitwise_right_shift="StableHLO_ShiftRightArithmeticOp", maximum="StableHLO_MaxOp", minimum="StableHLO_MinOp",
    asin_acos_kernel="CHLO_AsinAcosKernelOp", acos="CHLO_AcosOp", acosh="CHLO_AcoshOp", asin="CHLO_AsinOp", asinh="CHLO_AsinhOp", atan="CHLO_AtanOp", atanh="CHLO_AtanhOp",
    atan2="StableHLO_Atan2Op", cos="StableHLO_CosineOp", cosh="CHLO_CoshOp", sin="StableHLO_SineOp", sinh="CHLO_SinhOp", tan="StableHLO_TanOp", tanh="StableHLO_TanhOp",
    exp="StableHLO_ExpOp", expm1="StableHLO_Expm1Op", log="StableHLO_LogOp", log1p="StableHLO_Log1pOp", ceil="StableHLO_CeilOp", floor="StableHLO_FloorOp",
    round="StableHLO_RoundOp", sign="StableHLO_SignOp", conjugate="CHLO_ConjOp", real="StableHLO_RealOp", imag="StableHLO_ImagOp", complex="StableHLO_ComplexOp",
    sqrt="StableHLO_SqrtOp", select="StableHLO_SelectOp", nextafter="CHLO_NextAfterOp", is_finite="StableHLO_IsFiniteOp", square="CHLO_SquareOp",
)
XLA_FUNCS = dict(
    absolute="Abs", negative="Neg", add="Add", subtract="Sub", multiply="Mul", divide="Div", remainder="Rem", pow="Pow", logical_and="And", logical_or="Or", logical_xor="Xor",
    logical_not="Not", maximum="Max", minimum="Min", acos="Acos", acosh="Acosh", asin="Asin", asinh="Asinh", atan="Atan", atanh="Atanh", atan2="Atan2", cos="Cos", cosh="Cosh",
    sin="Sin", sinh="Sinh", tan="Tan", tanh="Tanh", exp="Exp", expm1="Expm1", log="Log", log1p="Log1p", ceil="Ceil", floor="Floor", round="Round", sign="Sign", real="Real",
    imag="Imag", complex="Complex", square="Square", sqrt="Sqrt", select="Select", lt="Lt", le="Le", gt="Gt", ge="Ge", eq="Eq", ne="Ne", is_finite="IsFinite", is_inf="IsInf",
    is_posinf="IsPosInf", is_neginf="IsNegInf", is_nan="IsNan", is_negzero="IsNegZero", nextafter="NextAfter",
)
CONST_OP = dict(largest="StableHLO_ConstantLikeMaxFiniteValue", smallest="StableHLO_ConstantLikeSmallestNormalizedValue", posinf="StableHLO_ConstantLikePosInfValue", neginf="StableHLO_ConstantLikeNegInfValue")


# --------------------------------------------------------------------------------------------- dag parser
TOKEN = re.compile(r"\s*(?:(\()|(\))|(,)|(\$[A-Za-z_][\w]*)|([A-Za-z_][\w]*(?:<\"[^\"]*\">)?)(:\$[A-Za-z_][\w]*)?)")


def parse_dag(text):
    """(Op[:$ref] arg, arg ...) | $ref | Attr<"..">   ->   ('dag', op, ref|None, [args]) | ('ref', name) | ('attr', text)"""
    pos = 0

    def tok():
        nonlocal pos
        m = TOKEN.match(text, pos)
        if not m or m.end() == pos:
            if text[pos:].strip() == "":
                return None
            raise ValueError("cannot tokenise at %r" % text[pos : pos + 30])
        pos = m.end()
        return m

    def expr():
        m = tok()
        if m is None:
            raise ValueError("unexpected end")
        if m.group(4):
            return ("ref", m.group(4)[1:])
        if m.group(5):
            return ("attr", m.group(5))
        if m.group(1):
            h = tok()
            if not h or not h.group(5):
                raise ValueError("dag head expected")
            op, ref = h.group(5), (h.group(6)[2:] if h.group(6) else None)
            args = []
            while True:
                save = pos
                m2 = tok()
                if m2 is None:
                    raise ValueError("unterminated dag")
                if m2.group(2):
                    break
                if m2.group(3):
                    continue
                nonlocal_pos_reset(save)
                args.append(expr())
            return ("dag", op, ref, args)
        raise ValueError("unexpected token %r" % m.group(0))

    def nonlocal_pos_reset(p):
        nonlocal pos
        pos = p

    r = expr()
    if text[pos:].strip():
        raise ValueError("trailing text %r" % text[pos : pos + 30])
    return r


def walk(tree, order):
    """text-order list of events ('bind', ref) / ('use', ref)"""
    if tree[0] == "ref":
        order.append(("use", tree[1]))
    elif tree[0] == "dag":
        if tree[2]:
            order.append(("bind", tree[2]))
        for a in tree[3]:
            walk(a, order)


# --------------------------------------------------------------------------------------------- obligations
def stablehlo_obligations(rep):
    import functional_algorithms as fa
    import functional_algorithms.targets as T
    from functional_algorithms.expr import Expr

    tg = T.stablehlo
    fn_tab = ("targets.stablehlo.kind_to_target",)
    fn_pr = ("targets.stablehlo.Printer.tostring",)
    rep.under_contract(fn_tab[0], "operator exists in the StableHLO/CHLO inventory and implements the kind")
    rep.under_contract(fn_pr[0], "emitted dag parses back to the node: operator, operand order, comparison direction, bindings")
    for kind, op in sorted(tg.kind_to_target.items()):
        if op is NotImplemented or op is None:
            continue
        base = "C06/O1/stablehlo/%s" % kind
        dialect, _, name = op.partition("_")
        exists = (dialect == "StableHLO" and name in STABLEHLO_OPS) or (dialect == "CHLO" and name in CHLO_OPS)
        rep.add(core.decided(base + "/operator-exists", PROP, exists, functions=fn_tab, text="%s is an operator of the %s dialect" % (op, dialect), meta=dict(target="stablehlo", kind=kind, op=op)))
        want = KIND_OP.get(kind)
        rep.add(core.decided(base + "/operator-implements-kind", PROP, (op == want) if want else None, functions=fn_tab, text="%s is rendered by %s" % (kind, want), detail=dict(got=op, want=want), claimed=want is not None, meta=dict(target="stablehlo", kind=kind, op=op, want=want)))
    for name, op in sorted(tg.constant_to_target.items()):
        want = CONST_OP.get(name)
        if want:
            rep.add(core.decided("C06/O1/stablehlo/constant/%s" % name, PROP, op == want, functions=("targets.stablehlo.constant_to_target",), text="named constant %s -> %s" % (name, want), detail=dict(got=op), meta=dict(target="stablehlo", kind=name, op=op)))
    rep.under_contract("targets.stablehlo.constant_to_target", "named constants map to the ConstantLike*Value operators")

    # O2: parse back, per kind x operand states
    kinds = [k for k, v in tg.kind_to_target.items() if v is not NotImplemented]
    bad = {}
    ncases = 0
    for kind in sorted(kinds):
        cmp_kind = tg.kind_to_target[kind] is None
        arity = 3 if kind == "select" else (2 if (cmp_kind or kind in ("add", "subtract", "multiply", "divide", "logical_and", "logical_or", "logical_xor", "bitwise_left_shift", "bitwise_right_shift", "maximum", "minimum", "atan2", "complex", "nextafter")) else 1)
        for top_need in (True, False):
            for opstate in itertools.product(("symbol", "shared-node", "inline-node", "constant", "constant-like-shared", "constant-like-inline"), repeat=arity):
                ncases += 1
                ctx = fa.Context(paths=[])
                with warnings.catch_warnings():
                    warnings.simplefilter("ignore")
                    zc = ctx.symbol("z", "complex")
                    xs = [ctx.symbol("x%d" % i, "float") for i in range(arity)]
                    if kind in ("real", "imag"):
                        xs = [zc]
                    if kind in ("logical_and", "logical_or", "logical_xor", "logical_not"):
                        xs = [ctx.symbol("b%d" % i, "boolean") for i in range(arity)]
                    if kind == "select":
                        xs[0] = ctx.symbol("c", "boolean")
                    ops = []
                    for i, (x, stt) in enumerate(zip(xs, opstate)):
                        if stt == "symbol" or x.get_type().kind == "boolean" or kind in ("real", "imag"):
                            ops.append(x)
                        elif stt == "constant":
                            ops.append(ctx.constant(1.5 + i, x))
                        elif stt.startswith("constant-like"):
                            # the reference (like) operand is a derived expression that has not been printed yet
                            ops.append(ctx.constant(1.5 + i, ctx.real(zc)))  # real(z) survives normalize_like
                        else:
                            ops.append(ctx.negative(x))
                    top = Expr(ctx, kind, tuple(ops))
                    args = [x for x in xs]
                    need = {top.ref: top_need}
                    for o, stt in zip(ops, opstate):
                        need[o.ref] = stt == "shared-node"
                        for oo in o.operands:
                            if hasattr(oo, "ref"):
                                need.setdefault(oo.ref, stt == "constant-like-shared" and oo.kind != "symbol")
                    # consistency with compute_need_ref: a reference operand shared by two constants is needed
                    likes = [o.operands[1] for o in ops if o.kind == "constant" and o.operands[1].kind != "symbol"]
                    for lk in likes:
                        if sum(1 for q in likes if q is lk) >= 2:
                            need[lk.ref] = True
                    pr = tg.Printer(need, debug=0)
                    for a in list(args) + [zc]:
                        pr.defined_refs.add(a.ref)
                    try:
                        text = pr.tostring(top)
                        tree = parse_dag(text)
                    except Exception as e:
                        bad.setdefault(kind, []).append((opstate, top_need, "raised/parse: %r" % (e,)))
                        continue
                problem = None
                if tree[0] != "dag":
                    problem = "not a dag"
                else:
                    want_op = "StableHLO_CompareOp" if cmp_kind else tg.kind_to_target[kind]
                    if tree[1] != want_op:
                        problem = "operator %s instead of %s" % (tree[1], want_op)
                    elif (tree[2] == top.ref) != top_need or (tree[2] and tree[2] != top.ref):
                        problem = "binding %r although need_ref=%s" % (tree[2], top_need)
                    else:
                        targs = tree[3]
                        if cmp_kind:
                            if len(targs) != 4 or targs[2] != ("attr", 'StableHLO_ComparisonDirectionValue<"%s">' % kind.upper()):
                                problem = "comparison direction %r" % (targs[2:3],)
                            targs = targs[:2]
                        if not problem and len(targs) != len(ops):
                            problem = "%d operands printed for %d" % (len(targs), len(ops))
                        for ta, o, stt in zip(targs, ops, opstate):
                            if problem:
                                break
                            if o.kind == "symbol":
                                if ta != ("ref", o.ref):
                                    problem = "operand %r printed as %r" % (o.ref, ta)
                            elif o.kind == "constant" and stt.startswith("constant-like"):
                                if ta[0] != "dag" or not ta[1].startswith("StableHLO_ConstantLike") or len(ta[3]) != 1:
                                    problem = "constant printed as %r" % (ta,)
                                # a `$ref` operand must have been bound earlier (checked by the binding order below); an inline
                                # like must be the abs node
                                elif ta[3][0][0] == "dag" and ta[3][0][1] != "StableHLO_RealOp":
                                    problem = "constant's reference operand printed as %r" % (ta[3][0],)
                            elif o.kind == "constant":
                                if ta[0] != "dag" or not ta[1].startswith("StableHLO_ConstantLike") or len(ta[3]) != 1 or ta[3][0][0] != "ref" or ta[3][0][1] not in pr.defined_refs:
                                    problem = "constant printed as %r (like must be a defined reference)" % (ta,)
                                elif str(o.operands[0]) not in ta[1]:
                                    problem = "constant value lost: %r" % (ta[1],)
                            else:
                                if ta[0] != "dag" or ta[1] != "StableHLO_NegOp" or (ta[2] == o.ref) != (stt == "shared-node"):
                                    problem = "operand node printed as %r" % (ta,)
                    order = []
                    walk(tree, order)
                    bound = set(a.ref for a in args) | {zc.ref}
                    for ev, r in order:
                        if ev == "bind":
                            if r in bound and not problem:
                                problem = "reference %s bound twice" % r
                            bound.add(r)
                        elif r not in bound and not problem:
                            problem = "reference %s used before it is bound" % r
                if problem:
                    bad.setdefault(kind, []).append((opstate, top_need, problem))
    for kind in sorted(kinds):
        rep.add(core.decided("C06/O2/stablehlo/parse-back/%s" % kind, PROP, kind not in bad, functions=fn_pr, text="%s: emitted dag parses back to the node for every operand-state combination" % kind, detail=dict(bad=[str(b) for b in bad.get(kind, [])[:4]]), meta=dict(target="stablehlo", kind=kind, bad=[str(b) for b in bad.get(kind, [])[:2]])))
    # a shared operand used twice is bound once and referenced afterwards
    ctx = fa.Context(paths=[])
    x = ctx.symbol("x", "float")
    s = ctx.negative(x)
    top = s * s + s
    need = dict()

    class Spy(tg.Printer):
        pass

    text = top.tostring(tg)
    order = []
    try:
        walk(parse_dag(text), order)
        binds = [r for ev, r in order if ev == "bind" and r == s.ref]
        first_use = next((i for i, (ev, r) in enumerate(order) if r == s.ref), None)
        ok = len(binds) == 1 and order[first_use][0] == "bind"
    except Exception as e:
        ok, order = False, [repr(e)]
    rep.add(core.decided("C06/O2/stablehlo/shared-operand-bound-once", PROP, ok, functions=fn_pr, text="a sub-expression used three times is bound once (`:$ref`) at its first occurrence and referenced afterwards", detail=dict(text=text[:300])))


def xla_obligations(rep):
    import ast

    import functional_algorithms as fa
    import functional_algorithms.targets as T

    tg = T.xla_client
    fn_tab = ("targets.xla_client.kind_to_target",)
    rep.under_contract(fn_tab[0], "builder call with the spec's function name and operands in order")
    for kind, tmpl in sorted(tg.kind_to_target.items()):
        if tmpl is NotImplemented or callable(tmpl):
            continue
        base = "C06/O3/xla_client/%s" % kind
        names = ["a", "b", "c"]
        try:
            tree = ast.parse(tmpl.format(*names), mode="eval").body
        except Exception as e:
            rep.add(core.decided(base + "/parses", PROP, False, functions=fn_tab, text="template %r does not parse: %r" % (tmpl, e), meta=dict(target="xla_client", kind=kind, template=tmpl)))
            continue
        want = XLA_FUNCS.get(kind)
        if isinstance(tree, ast.Call) and isinstance(tree.func, ast.Name):
            got = (tree.func.id, [getattr(a, "id", None) for a in tree.args])
            nargs = len(tree.args)
            ok = want is not None and got == (want, names[:nargs])
            rep.add(core.decided(base + "/builder-call", PROP, ok if want else None, functions=fn_tab, text="%s -> %s(operands in order)" % (kind, want), detail=dict(got=got), claimed=want is not None, meta=dict(target="xla_client", kind=kind, template=tmpl)))
        else:
            # operator forms (bitwise, positive): operands in order
            ids = [n.id for n in ast.walk(tree) if isinstance(n, ast.Name)]
            rep.add(core.decided(base + "/operator-form", PROP, ids == sorted(ids), functions=fn_tab, text="operator template keeps the operand order", detail=dict(template=tmpl), meta=dict(target="xla_client", kind=kind, template=tmpl)))
    # constants: ScalarLike(<like ref>, value) with the like reference defined (an argument)
    ctx = fa.Context(paths=[])
    x = ctx.symbol("x", "float").reference(ref_name="x")
    y = ctx.constant(2.5, x) * x
    graph = ctx.apply(ctx.symbol("f").reference(ref_name="f"), [x], y)
    with warnings.catch_warnings():
        warnings.simplefilter("ignore")
        text = graph.tostring(tg)
    m = re.search(r"ScalarLike\((\w+), ([^)]*)\)", text)
    ok = bool(m) and m.group(1) == "x" and m.group(2).strip() == "2.5"
    rep.add(core.decided("C06/O3/xla_client/constant-scalarlike", PROP, ok, functions=("targets.xla_client.Printer.make_constant",), text="numeric constant prints as ScalarLike(<defined like reference>, <value>)", detail=dict(text=text[-300:])))
    rep.under_contract("targets.xla_client.Printer.make_constant", "ScalarLike(like.ref, value) with like defined")



# --------------------------------------------------------------------------------------------- O5 whole functions
NAMED_CONSTANTS = ("largest", "smallest", "smallest_subnormal", "posinf", "neginf", "eps", "pi", "nan", "undefined")
CPP_WORDS = set("XlaOp return template typename auto const float double bool true false static_cast std numeric_limits DType M_PI NAN INFINITY".split())


def cpp_binding_events(src):
    """(problems, names) of an emitted XLA-client function: every identifier on a right-hand side that is not a builder
    call must be a parameter or the target of an EARLIER statement; every name is assigned once"""
    lines = [ln.strip() for ln in src.splitlines() if ln.strip()]
    joined = " ".join(lines)
    m = re.search(r"\b(\w+)\s*\(([^)]*)\)\s*\{", joined)
    if not m:
        return ["no function header found"], set()
    defined = {a.split()[-1] for a in m.group(2).split(",") if a.strip()}
    body = joined[m.end() : joined.rfind("}")]
    probs = []
    xla_vars = set(defined) if "XlaOp" in m.group(2) else set()
    for st in [x.strip() for x in body.split(";") if x.strip()]:
        ma = re.match(r"^(?:[\w:<>]+)\s+(\w+)\s*=\s*(.*)$", st, re.S)
        if ma:
            var, rhs = ma.group(1), ma.group(2)
        elif st.startswith("return"):
            var, rhs = None, st[len("return") :]
        else:
            continue
        for mm in re.finditer(r"[A-Za-z_]\w*", rhs):
            nm = mm.group(0)
            after = rhs[mm.end() :].lstrip()
            before = rhs[: mm.start()].rstrip()
            if after.startswith("(") or after.startswith("<") or after.startswith("::") or before.endswith("::") or before.endswith(".") or nm in CPP_WORDS:
                continue
            if re.fullmatch(r"[eE]\d*|[fFlL]|inf|nan|infinity|NAN|INFINITY", nm) and re.search(r"[\d.]$", before):
                continue  # exponent / suffix of a numeric literal
            if nm not in defined:
                probs.append("`%s` is referenced before it is bound in `%s`" % (nm, st[:80]))
        # the value argument of ScalarLike is a compile-time constant expression: no XlaOp variable may occur in it
        for mm in re.finditer(r"ScalarLike\(", rhs):
            depth, i, args, cur = 1, mm.end(), [], ""
            while i < len(rhs) and depth:
                ch = rhs[i]
                depth += ch == "("
                depth -= ch == ")"
                if ch == "," and depth == 1:
                    args.append(cur)
                    cur = ""
                elif depth:
                    cur += ch
                i += 1
            args.append(cur)
            if len(args) == 2:
                for nm in re.findall(r"[A-Za-z_]\w*", args[1]):
                    if nm in xla_vars:
                        probs.append("the XlaOp variable `%s` is used inside the compile-time value of `ScalarLike(%s, %s)`" % (nm, args[0].strip(), args[1].strip()[:40]))
        if var:
            if var in defined:
                probs.append("`%s` is bound twice" % var)
            defined.add(var)
            if ma and st.split()[0] == "XlaOp":
                xla_vars.add(var)
    return probs, defined


def dag_binding_events(src):
    """problems of an emitted StableHLO pattern: every `$name` used in the result dag is an argument of the source pattern or
    bound (`:$name`) earlier in text order; nothing is bound twice"""
    m = re.search(r"def\s*:\s*Pat<\((.*?)\),\s*(\(.*\))>;", src, re.S)
    if not m:
        return ["no Pat<> found"]
    defined = set(re.findall(r":\$(\w+)", m.group(1)))
    probs = []
    for mm in re.finditer(r"(:)?\$(\w+)", m.group(2)):
        nm = mm.group(2)
        if mm.group(1):
            if nm in defined:
                probs.append("`$%s` is bound twice" % nm)
            defined.add(nm)
        elif nm not in defined:
            probs.append("`$%s` is referenced but not bound before" % nm)
    return probs


def whole_function_obligations(rep):
    """binding discipline of whole emitted functions: directed graphs (constants whose reference operand is a derived,
    possibly shared expression; constants without a reference operand; comparisons folded by the rewriter) and EVERY shipped
    algorithm for every signature the target lists in trace_arguments (the package's own pipeline: trace, rewrite, print)"""
    import functional_algorithms as fa
    import functional_algorithms.algorithms as A
    import functional_algorithms.targets as T

    def directed():
        def derived_like_shared(ctx, z):
            x = ctx.real(z)
            c = ctx.constant(1.5, x)
            return ctx((c - x) * c)

        def derived_like_once(ctx, z):
            c = ctx.constant(1.5, ctx.imag(z))
            return ctx(ctx.real(z) * c)

        def constant_without_like(ctx, x, y):
            return ctx.select(x < y, ctx.constant(2.0), x)

        def folded_comparison(ctx, x, y):
            return ctx.select(ctx.logical_xor(x >= x, x < y), x, y)

        return [("constant-like-derived-shared", derived_like_shared, (complex,)), ("constant-like-derived-once", derived_like_once, (complex,)), ("constant-without-reference-operand", constant_without_like, (float, float)), ("comparison-folded-by-rewriter", folded_comparison, (float, float))]

    for tname, checker in (("xla_client", lambda s: cpp_binding_events(s)[0]), ("stablehlo", dag_binding_events)):
        target = getattr(T, tname)
        fnid = ("targets.%s.Printer" % tname,)
        cases = [("directed/" + nm, f, sig) for nm, f, sig in directed()]
        for name, sigs in sorted(target.trace_arguments.items()):
            func = getattr(A, name, None)
            if func is None:
                continue
            for sig in sigs:
                cases.append(("shipped/%s%s" % (name, "".join("[%s]" % a.strip(":") for a in sig)), func, sig))
        def scaled(ctx, x, y):
            c = ctx.sqrt(ctx.constant(2, x)) + ctx.constant(3, x)  # a compile-time constant expression used twice
            d = c * c
            return ctx(x * d + y * c)

        alt_cases = []
        if tname == "xla_client":
            # the alternative constant context: compile-time constants are printed by the C++ constant printer into the same body
            alt_cases = [("alt:" + c[0], c[1], c[2]) for c in cases if c[0].startswith("shipped/")] + [("alt:directed/compile-time-constant-shared", scaled, (float, float))]
        def main_and_alt_names(pad):
            def f(ctx, x, y):
                s_ = (x * y) + y  # an add node of the main context
                cs = [ctx.constant(100 + i, x) for i in range(pad)]  # shifts the per-context node numbering
                c = ctx.constant(2, x) + ctx.constant(3, x)  # an add node of the alternative (compile-time) context, used twice
                d = c * c
                r = (s_ * s_) * d
                for c_ in cs:
                    r = r + c_
                return r

            return f

        if tname == "xla_client":
            for pad in range(8):
                alt_cases.append(("alt:directed/main-and-alt-context-names[%d][as-traced]" % pad, main_and_alt_names(pad), (float, float)))
        for cname, func, sig in cases + alt_cases:
            alt = cname.startswith("alt:")
            oid = "C06/O5/%s/bound-before-use/%s" % (tname, cname)
            try:
                with warnings.catch_warnings():
                    warnings.simplefilter("ignore")
                    import contextlib
                    import io

                    with contextlib.redirect_stdout(io.StringIO()):
                        ctx = fa.Context(paths=[A], enable_alt=True, default_constant_type="DType") if alt else fa.Context(paths=[A])
                        g = ctx.trace(func, *sig)
                        # directed graphs with the [as-traced] tag are printed without the algebraic rewriter (legal API use)
                        g = g if cname.endswith("[as-traced]") else g.rewrite(target, fa.rewrite)
                        src = g.tostring(target)
            except NotImplementedError as e:
                rep.add(core.decided(oid, PROP, None, functions=fnid, text="the target does not accept this graph: %s" % e, claimed=False))
                continue
            except Exception as e:
                rep.add(core.decided(oid, PROP, False, functions=fnid, text="printing raised %r" % (e,), meta=dict(target=tname, kind="whole-function " + cname, problems=[repr(e)[:200]])))
                continue
            probs = checker(src)
            # a named constant the target has no rendering for is printed as its bare name (ScalarLike(x, largest)): its own obligation
            named = [pr for pr in probs if re.match(r"`\$?(%s)`" % "|".join(NAMED_CONSTANTS), pr)]
            probs = [pr for pr in probs if pr not in named]
            rep.add(core.decided(oid, PROP, not probs, functions=fnid, text="every named value is bound exactly once before it is referenced", detail=dict(problems=probs[:4], text=src[:600] if probs else None), meta=dict(target=tname, kind="whole-function " + cname, problems=probs[:3])))
            if tname == "xla_client":
                rep.add(core.decided(oid.replace("/bound-before-use/", "/named-constants-rendered/"), PROP, not named, functions=("targets.xla_client.constant_to_target",), text="named constants are rendered by an expression of the target, not left as bare names", detail=dict(problems=named[:4]), meta=dict(target=tname, kind="named-constants " + cname, problems=sorted({re.match(r"`\$?(\w+)`", pr).group(1) for pr in named}))))

    # alternative constant context: the VALUE of a numeric constant survives the C++ constant printer
    import math as _math

    for v in (float("inf"), float("-inf"), 2.5, -2.5, -0.0, 0.0, 1e300, 3):
        oid = "C06/O5/xla_client/alt-constant-value/%r" % (v,)
        try:
            with warnings.catch_warnings():
                warnings.simplefilter("ignore")
                import contextlib
                import io

                with contextlib.redirect_stdout(io.StringIO()):
                    ctx = fa.Context(paths=[A], enable_alt=True, default_constant_type="DType")
                    src = ctx.trace(lambda ctx, x: x * ctx.constant(v, x), float).tostring(T.xla_client)
            m = re.search(r"ScalarLike\(\s*x\s*,\s*(.*?)\)\s*\)\s*;", src.replace("\n", " "), re.S)
            txt = m.group(1) if m else None
            if txt is None:
                prob = "no ScalarLike(x, <value>) found in: %s" % src[-200:]
            else:
                py = re.sub(r"std::numeric_limits<\w+>::infinity\(\)", "math.inf", txt)
                py = re.sub(r"static_cast<\w+>|\bDType\b", "", py)
                got = eval(py, {"math": _math})
                same = (got == v and _math.copysign(1, got) == _math.copysign(1, v))
                prob = None if same else "value text `%s` denotes %r, the graph constant is %r" % (txt.strip(), got, v)
        except Exception as e:
            prob = "raised %r" % (e,)
        rep.add(core.decided(oid, PROP, prob is None, functions=("targets.cpp.Printer.make_constant", "targets.xla_client.Printer"), text="the compile-time value printed for a numeric constant denotes that constant", detail=dict(problem=prob), meta=dict(target="xla_client", kind="alt-constant-value %r" % (v,), problems=[prob] if prob else [])))

    # one Context used for two signatures of the same function (xla_client): parameters and body must agree on names
    def sel(ctx, x, y):
        return ctx.select(abs(x) < abs(y), x, y)

    try:
        with warnings.catch_warnings():
            warnings.simplefilter("ignore")
            import contextlib
            import io

            with contextlib.redirect_stdout(io.StringIO()):
                ctx = fa.Context(paths=[A])
                ctx.trace(sel, float, float).tostring(T.xla_client)
                src = ctx.trace(sel, complex, complex).tostring(T.xla_client)
        probs = cpp_binding_events(src)[0]
    except Exception as e:
        probs, src = ["raised %r" % (e,)], ""
    rep.add(core.decided("C06/O5/xla_client/bound-before-use/directed/second-signature-in-one-context", PROP, not probs, functions=("targets.xla_client.Printer",), text="a second signature traced in the same Context: parameters and body use the same names", detail=dict(problems=probs[:4], text=src[:500] if probs else None), meta=dict(target="xla_client", kind="whole-function directed/second-signature-in-one-context", problems=probs[:3])))


def build(tier):
    rep = core.Report(PROP, tier)
    rep.trust("the operator inventories of StableHLO / CHLO / the XLA client builder written in this file from their public definitions (the dialects are not installed)", "the TableGen dag parser in this file", "CPython executing the real printers")
    rep.assume(
        "semantics of the StableHLO / CHLO / XLA operators themselves; only the rendering (operator choice, operand order, comparison direction, bindings, constants) is decided",
        "induction over the graph from the per-kind parse-back contract is an argument, not mechanised; the apply/Pat<> wrapper and the alternative constant context of the XLA client target are not under contract",
    )
    rep.extraction_drops.append("nothing: real printers on real nodes; output parsed back")
    def xla_composition(rep):
        from vf.contracts.C05 import composition_obligations

        sub = core.Report("C05", tier)
        composition_obligations(sub, targets=("xla_client", "cpp"))
        for o in sub.obls:
            o.id = o.id.replace("C05/O6/", "C06/O4/")
            o.prop = PROP
            o.functions = ("targets.xla_client.kind_to_target",)
            rep.add(o)

    for f in (stablehlo_obligations, xla_obligations, xla_composition, whole_function_obligations):
        try:
            f(rep)
        except Exception:
            rep.add(core.decided("C06/%s/engine" % f.__name__, PROP, core.ERROR, text=traceback.format_exc()[-1500:]))
    rep.add(core.decided("C06/canary/swapped-dag-operands", PROP, parse_dag("(StableHLO_SubtractOp $b, $a)")[3] != [("ref", "a"), ("ref", "b")], text="canary: the parser distinguishes operand order", kind="canary"))
    rep.replayers["C06/O5/xla_client/named-constants-rendered/"] = lambda o: dict(replayed=bool((o.meta or {}).get("problems")), witness_class="xla_client named constants left as bare names: " + ", ".join((o.meta or {}).get("problems") or []), detail=o.meta)
    rep.replayers["C06/"] = lambda o: dict(replayed=True, witness_class="%s %s" % ((o.meta or {}).get("target"), (o.meta or {}).get("kind")) + ((": " + "; ".join(sorted({re.sub(r" in `.*", "", str(pr)) for pr in (o.meta or {}).get("problems") or []}))) if (o.meta or {}).get("problems") else ""), detail=o.meta)
    return rep


def main(tier, only=None):
    rep = build(tier)
    if only:
        rep.obls = [o for o in rep.obls if only in o.id]
    return rep.finish()


def replay(path):
    d = json.load(open(path))
    print(json.dumps(d.get("meta"), indent=1, default=str))
    return 1
