"""C19, BOUNDED STAND-IN (never counted as proved): layer B of the proof runs the real real_samples for requested sizes
1..4 only, and the default-bounds flag plumbing (include_infinity / zero / subnormal / nan / huge, nonnegative, unique)
is covered by the kernel lemmas and a size formula, not end to end.  Here the real function is executed natively for
many sizes, every flag combination and directed user bounds, and the clauses of the statement are checked on the
returned arrays.
"""
from __future__ import annotations

import itertools
import multiprocessing as mp
import warnings

import numpy

from vf import core

TYPES = ("float16", "float32", "float64")
UINT = {"float16": numpy.uint16, "float32": numpy.uint32, "float64": numpy.uint64}
SIZES_Q = (1, 2, 3, 5, 6, 7, 10, 11, 16, 33, 100, 257)
SIZES_T = SIZES_Q + (4, 8, 9, 12, 13, 20, 50, 64, 101, 500, 1000, 4097)


def rank(v, ut):
    i = int(abs(v).view(ut))
    return -i if v < 0 else i


def spacing_ok(vals, ut):
    """consecutive values (same sign, finite, non-special) are equally spaced in ULP up to one unit"""
    d = [rank(b, ut) - rank(a, ut) for a, b in zip(vals, vals[1:])]
    return not d or max(d) - min(d) <= 1, d


def check_default(t, tn, size, flags):
    import functional_algorithms.utils as U

    inf_, zero, sub, nan, huge, nonneg, unique = flags
    ut = UINT[tn]
    fi = numpy.finfo(t)
    out = []
    try:
        with warnings.catch_warnings():
            warnings.simplefilter("ignore")
            r = U.real_samples(size, dtype=t, include_infinity=inf_, include_zero=zero, include_subnormal=sub, include_nan=nan, include_huge=huge, nonnegative=nonneg, unique=unique)
    except Exception as e:
        return ["raised %r" % (e,)]
    if not isinstance(r, numpy.ndarray) or r.dtype != numpy.dtype(t) or r.ndim != 1:
        return ["not a 1-D array of %s: %r" % (tn, type(r))]
    fin = r[numpy.isfinite(r)]
    nn = r[~numpy.isnan(r)]
    if unique and not all(a < b for a, b in zip(nn, nn[1:])):
        out.append("not strictly increasing")
    if bool(numpy.isnan(r).any()) != bool(nan):
        out.append("NaN present=%s requested=%s" % (bool(numpy.isnan(r).any()), nan))
    if numpy.isnan(r).sum() > 1 and unique:
        out.append("NaN repeated")
    minpos = fi.smallest_subnormal if sub else fi.smallest_normal
    if not sub and any(v != 0 and abs(v) < fi.smallest_normal for v in fin):
        out.append("subnormal sample although not requested")
    want = [fi.max, minpos]
    if not nonneg:
        want += [-fi.max, -minpos]
    for w in want:
        if not (fin == w).any():
            out.append("bound %r missing" % (w,))
    if zero and not (fin == 0).any():
        out.append("zero missing")
    if not zero and (fin == 0).any():
        out.append("zero present although not requested")
    if bool(numpy.isposinf(r).any()) != bool(inf_):
        out.append("+inf present=%s requested=%s" % (bool(numpy.isposinf(r).any()), inf_))
    if bool(numpy.isneginf(r).any()) != bool(inf_ and not nonneg):
        out.append("-inf present=%s" % bool(numpy.isneginf(r).any()))
    if nonneg and (fin < 0).any():
        out.append("negative sample with nonnegative=True")
    if huge and size >= 12 and not (fin == numpy.nextafter(fi.max, t(0))).any():
        out.append("next-to-largest value missing")
    # spacing of the positive / negative finite samples, apart from the special values (largest, next-to-largest)
    for sgn in (1, -1):
        part = sorted(set(float(v) for v in fin if (v > 0 if sgn > 0 else v < 0)), key=abs)
        part = [t(v) for v in part]
        if huge and len(part) >= 3:
            part = part[:-2]
        ok, d = spacing_ok([abs(v) for v in part], ut)
        if not ok:
            out.append("%s samples not equally spaced in ULP: differences span %d..%d" % ("positive" if sgn > 0 else "negative", min(d), max(d)))
    return out


def check_bounds(t, tn, size, a, b, zero, sub, unique):
    import functional_algorithms.utils as U

    ut = UINT[tn]
    fi = numpy.finfo(t)
    out = []
    try:
        with warnings.catch_warnings():
            warnings.simplefilter("ignore")
            r = U.real_samples(size, dtype=t, min_value=a, max_value=b, include_zero=zero, include_subnormal=sub, unique=unique)
    except Exception as e:
        return ["raised %r" % (e,)]
    if not isinstance(r, numpy.ndarray) or r.dtype != numpy.dtype(t) or r.ndim != 1:
        return ["not a 1-D array of %s" % tn]
    # the effective bounds: a subnormal bound moves to zero / the smallest normal when subnormals are excluded
    lo, hi = t(a), t(b)
    sn = fi.smallest_normal
    if not sub:
        if lo != 0 and abs(lo) < sn:
            lo = -sn if lo < 0 else t(0)
        if hi != 0 and abs(hi) < sn:
            hi = t(0) if hi < 0 else sn
    if numpy.isnan(r).any() or numpy.isinf(r).any():
        out.append("NaN or infinity among the samples")
    if (r < lo).any() or (r > hi).any():
        out.append("sample outside [%r, %r]" % (lo, hi))
    if not (r == lo).any() or not (r == hi).any():
        out.append("a bound is missing (effective bounds %r, %r)" % (lo, hi))
    if unique and not all(x < y for x, y in zip(r, r[1:])):
        out.append("not strictly increasing")
    if not unique and not all(x <= y for x, y in zip(r, r[1:])):
        out.append("not non-decreasing")
    if not sub and any(v != 0 and abs(v) < sn for v in r):
        out.append("subnormal sample although not requested")
    if zero and lo < 0 < hi and not (r == 0).any():
        out.append("zero missing")
    if (lo >= 0 or hi <= 0) and not unique and len(r) != max(size, 2) and lo != hi:
        out.append("size %d instead of %d (same-sign bounds, unique=False)" % (len(r), max(size, 2)))
    for sgn in (1, -1):
        part = sorted(set(float(v) for v in r if (v > 0 if sgn > 0 else v < 0)), key=abs)
        ok, d = spacing_ok([abs(t(v)) for v in part], ut)
        if not ok:
            out.append("%s samples not equally spaced in ULP: differences span %d..%d" % ("positive" if sgn > 0 else "negative", min(d), max(d)))
    return out


def job(arg):
    mode, tn, items = arg
    t = getattr(numpy, tn)
    fails = []
    n = 0
    with numpy.errstate(all="ignore"):
        for it in items:
            n += 1
            if mode == "order-unique-false":
                size, flags = it
                import functional_algorithms.utils as U

                with warnings.catch_warnings():
                    warnings.simplefilter("ignore")
                    r = U.real_samples(size, dtype=t, include_infinity=flags[0], include_zero=flags[1], include_subnormal=flags[2], include_nan=flags[3], include_huge=flags[4], nonnegative=flags[5], unique=False)
                nn = r[~numpy.isnan(r)]
                if not all(a <= b for a, b in zip(nn, nn[1:])) and len(fails) < 4:
                    fails.append(dict(size=size, flags=dict(zip(("include_infinity", "include_zero", "include_subnormal", "include_nan", "include_huge", "nonnegative"), flags[:6])), errors=["not non-decreasing with unique=False"], head=[repr(v) for v in r[:3]], tail=[repr(v) for v in r[-4:]]))
                continue
            if mode == "huge-small":
                size, flags = it
                import functional_algorithms.utils as U

                fi = numpy.finfo(t)
                with warnings.catch_warnings():
                    warnings.simplefilter("ignore")
                    r = U.real_samples(size, dtype=t, include_infinity=flags[0], include_zero=flags[1], include_subnormal=flags[2], include_nan=flags[3], include_huge=True, nonnegative=flags[5], unique=flags[6])
                if not (r == numpy.nextafter(fi.max, t(0))).any() and len(fails) < 4:
                    fails.append(dict(size=size, flags=dict(zip(("include_infinity", "include_zero", "include_subnormal", "include_nan", "include_huge", "nonnegative", "unique"), flags)), errors=["next-to-largest value missing although include_huge=True"]))
                continue
            if mode == "default":
                size, flags = it
                errs = check_default(t, tn, size, flags)
                if errs and len(fails) < 4:
                    fails.append(dict(size=size, flags=dict(zip(("include_infinity", "include_zero", "include_subnormal", "include_nan", "include_huge", "nonnegative", "unique"), flags)), errors=errs[:3]))
            else:
                size, a, b, zero, sub, unique = it
                errs = check_bounds(t, tn, size, t(a), t(b), zero, sub, unique)
                if errs and len(fails) < 4:
                    fails.append(dict(size=size, min_value=repr(t(a)), max_value=repr(t(b)), include_zero=zero, include_subnormal=sub, unique=unique, errors=errs[:3]))
    return mode, tn, n, fails


def bound_pairs(t, rng, count):
    fi = numpy.finfo(t)
    sn, ss, mx = float(fi.smallest_normal), float(fi.smallest_subnormal), float(fi.max)
    fixed = [(1.0, 2.0), (-2.0, -1.0), (-1.0, 1.0), (0.0, 1.0), (-1.0, 0.0), (-0.0, 1.0), (-1.0, -0.0), (sn, mx), (-mx, -sn), (-mx, mx), (ss, sn), (-sn, -ss), (ss * 3, 1.0), (-1.0, ss * 3), (-ss * 2, ss * 5), (1.0, float(numpy.nextafter(t(1), t(2)))), (1.0, float(t(1) + t(8) * fi.eps)), (0.0, sn), (-sn, sn), (-3.5, 1e-3), (-1e-3, 1000.0), (sn / 2, 4.0), (-4.0, -sn / 2)]
    out = list(fixed)
    for _ in range(count):
        e1, e2 = rng.uniform(numpy.log10(ss), numpy.log10(mx) - 0.1, 2)
        a, b = 10.0**e1, 10.0**e2
        k = int(rng.integers(0, 4))
        if k == 0:
            lo, hi = min(a, b), max(a, b)
        elif k == 1:
            lo, hi = -max(a, b), -min(a, b)
        elif k == 2:
            lo, hi = -a, b
        else:
            lo, hi = (0.0, a) if rng.integers(0, 2) else (-a, 0.0)
        with numpy.errstate(all="ignore"):
            if numpy.isfinite(t(lo)) and numpy.isfinite(t(hi)) and t(lo) < t(hi):
                out.append((lo, hi))
    return out


def run(rep, tier, prop="C19"):
    rng = numpy.random.default_rng(core.SEED)
    sizes = SIZES_Q if tier == "quick" else SIZES_T
    jobs = []
    for tn in TYPES:
        t = getattr(numpy, tn)
        items = [(s, f) for s in sizes for f in itertools.product((False, True), repeat=7)]
        k = max(1, len(items) // 8)
        jobs += [("default", tn, items[i : i + k]) for i in range(0, len(items), k)]
        items = [(s, f) for s in (6, 7, 8, 9, 10, 11) for f in itertools.product((False, True), repeat=7) if f[4]]
        jobs.append(("huge-small", tn, items))
        items = [(s, f) for s in (6, 10, 33) for f in itertools.product((False, True), repeat=7) if not f[6]]
        jobs.append(("order-unique-false", tn, items))
        pairs = bound_pairs(t, rng, 100 if tier == "quick" else 1000)
        items = [(s, a, b, z, sub, u) for (a, b) in pairs for s in sizes for z in (False, True) for sub in (False, True) for u in (False, True) if s <= 1000]
        k = max(1, len(items) // 8)
        jobs += [("bounds", tn, items[i : i + k]) for i in range(0, len(items), k)]
    agg, seen = {}, {}
    with mp.get_context("fork").Pool(core.NPROC) as pool:
        for mode, tn, n, fails in pool.imap_unordered(job, jobs):
            seen[(mode, tn)] = seen.get((mode, tn), 0) + n
            agg.setdefault((mode, tn), []).extend(fails)
    for tn in TYPES:
        for mode in ("default", "bounds", "huge-small", "order-unique-false"):
            lst = agg.get((mode, tn), [])
            rep.add(core.decided("%s/bounded/real_samples[%s]/%s" % (prop, {"default": "default-bounds", "bounds": "user-bounds", "huge-small": "next-to-largest,sizes-6..11", "order-unique-false": "default-bounds,unique=False,order"}[mode], tn), prop, not lst and seen.get((mode, tn), 0) > 0, functions=("utils.real_samples",), text="bounded stand-in: real_samples, %s, %d calls" % (mode, seen.get((mode, tn), 0)), detail=dict(failures=lst[:4], calls=seen.get((mode, tn), 0)), kind="bounded", solver="native-run", meta=dict(part="bounded", fails=lst[:4], t=tn, mode=mode)))
    rep.bounded.append(dict(what="the real real_samples executed natively: default bounds with every combination of the seven flags, and directed user bounds (same sign, straddling zero, zero and subnormal bounds, neighbouring values) with include_zero / include_subnormal / unique", bound="sizes %s; %s" % (list(sizes), "all 128 flag combinations"), counted_as_proved=False))


def replay(o):
    meta = o.meta or {}
    if meta.get("part") != "bounded":
        return None
    fails = meta.get("fails") or []
    errs = sorted({e.split(":")[0][:60] for f in fails for e in f.get("errors", [])})
    return dict(replayed=bool(fails), failing_inputs=fails, witness_class="real_samples[%s]: %s" % (meta.get("mode"), "; ".join(errs[:3])))
