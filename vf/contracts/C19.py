"""C19 - sample generators cover exactly the requested range, ULP-uniformly.

Two layers (DESIGN.md section 4 C19):

A. Kernel lemmas, unbounded: the stepping expression `i // (num - 1) for i in range(0, num * step, step)` is
   located in the source of utils.real_samples by AST pattern on every run (all occurrences) and translated
   mechanically to integer terms; for ALL num >= 2, step >= 0: length num, q_0 = 0, q_last = step,
   consecutive differences in {D, D+1} (equal spacing up to one unit), monotone, strictly increasing iff
   step >= num - 1, never beyond `step` (no wrap of start + q_k past end).   [z3 Int / NIA]

B. The real code object of real_samples on SYMBOLIC bounds (user-specified min_value / max_value of float16 /
   float32, all bit patterns), flags enumerated, requested size concrete and small (stated bound): every
   feasible path must return without raising and satisfy the statement's clauses (bounds contained, within
   bounds, non-decreasing before numpy.unique, no NaN, no subnormals unless requested, same-sign neighbours
   equally spaced up to one unit).  diff_ulp is replaced by its contract (C14).  numpy.unique is recorded,
   not computed (assumed contract, listed).

C. Size plumbing with default bounds: `num` at the kernel call sites as a function of the requested size and
   flags, symbolic size (Int): num >= 2 is what the kernel needs.
"""
from __future__ import annotations

import ast
import inspect
import itertools
import json
import types

import numpy
import z3

from vf import core, symrun
from vf.symrun import FMT, UINT, SymArray, SymBV, SymDType, SymFP, SymInt, UniqueOf, explore, reglobal, vc

PROP = "C19"
W = 80
WIDTH = {numpy.float16: 32, numpy.float32: 48, numpy.float64: 80}


# ------------------------------------------------------------------------------------------- A
def find_kernels(src):
    """all ListComp nodes of the form  <elt> for i in range(a, b, c)  inside real_samples"""
    tree = ast.parse(src)
    out = []
    for node in ast.walk(tree):
        if isinstance(node, ast.ListComp) and len(node.generators) == 1:
            gen = node.generators[0]
            if isinstance(gen.iter, ast.Call) and getattr(gen.iter.func, "id", None) == "range" and isinstance(gen.target, ast.Name) and not gen.ifs:
                out.append(node)
    return out


def tr(node, env):
    """ast arithmetic expression -> z3 Int term (Python semantics: // is floor division)"""
    if isinstance(node, ast.Name):
        return env[node.id]
    if isinstance(node, ast.Constant) and isinstance(node.value, int):
        return z3.IntVal(node.value)
    if isinstance(node, ast.BinOp):
        a, b = tr(node.left, env), tr(node.right, env)
        if isinstance(node.op, ast.Add):
            return a + b
        if isinstance(node.op, ast.Sub):
            return a - b
        if isinstance(node.op, ast.Mult):
            return a * b
        if isinstance(node.op, ast.FloorDiv):
            return a / b  # z3 Int division = floor for positive divisor (side condition emitted by the caller)
    raise symrun.Unsupported("kernel expression outside the translated subset: %s" % ast.dump(node))


def kernel_obligations(rep):
    import functional_algorithms.utils as U

    src = inspect.getsource(U.real_samples)
    kernels = find_kernels(src)
    rep.add(core.decided("C19/kernel/located", PROP, len(kernels) >= 1, functions=("utils.real_samples",), text="stepping comprehension located by AST pattern: %d occurrence(s)" % len(kernels), detail=dict(sources=[ast.unparse(k) for k in kernels])))
    num, step, k = z3.Ints("num step k")
    for idx, node in enumerate(kernels):
        gen = node.generators[0]
        tgt = gen.target.id
        args = gen.iter.args
        base = "C19/kernel/site%d" % idx
        fn = ("utils.real_samples",)
        env = dict(num=num, step=step)
        if len(args) != 3:
            rep.add(core.decided(base + "/shape", PROP, None, functions=fn, text="range() call with %d args: outside the translated subset" % len(args)))
            continue
        r_start, r_stop, r_step = [tr(a, env) for a in args]
        pre = z3.And(num >= 2, step >= 1)
        # range contract: range(a, b, c) with c > 0 enumerates a + j*c for 0 <= j < ceil((b-a)/c)
        i_k = r_start + k * r_step
        elt = lambda kk: tr(node.elt, dict(env, **{tgt: r_start + kk * r_step}))  # noqa
        # divisor of the element expression
        divs = [n_ for n_ in ast.walk(node.elt) if isinstance(n_, ast.BinOp) and isinstance(n_.op, ast.FloorDiv)]
        for j, d in enumerate(divs):
            s = z3.Solver()
            s.add(pre, tr(d.right, env) <= 0)
            rep.add(core.smt(base + "/divisor%d-positive" % j, PROP, s, functions=fn, text="num >= 2 => the divisor `%s` is positive (no ZeroDivisionError, floor = z3 div)" % ast.unparse(d.right), budget_s=20))
        # length: number of j >= 0 with start + j*step < stop is exactly num
        s = z3.Solver()
        s.add(pre, z3.Not(z3.And(r_step > 0, r_start + (num - 1) * r_step < r_stop, r_start + num * r_step >= r_stop)))
        rep.add(core.smt(base + "/length==num", PROP, s, functions=fn, text="range(%s) has exactly num elements" % ", ".join(ast.unparse(a) for a in args), budget_s=20))
        # endpoints
        s = z3.Solver()
        s.add(pre, z3.Not(z3.And(elt(z3.IntVal(0)) == 0, elt(num - 1) == step)))
        rep.add(core.smt(base + "/endpoints", PROP, s, functions=fn, text="first offset 0, last offset step (the bounds are contained)", budget_s=60))
        # spacing: q_{k+1} - q_k in {D, D+1}; explicit quotient/remainder form helps NIA
        n = num - 1
        qk, rk, qk1, rk1, D, R = z3.Ints("qk rk qk1 rk1 D R")
        s = z3.Solver()
        s.add(pre, k >= 0, k + 1 <= num - 1)
        s.add(qk == elt(k), qk1 == elt(k + 1), D == step / n)
        # the quotient-remainder characterisation of floor division (theory lemma instances as hints)
        s.add(k * step == qk * n + rk, rk >= 0, rk < n)
        s.add((k + 1) * step == qk1 * n + rk1, rk1 >= 0, rk1 < n)
        s.add(step == D * n + R, R >= 0, R < n)
        s.add(z3.Not(z3.Or(qk1 - qk == D, qk1 - qk == D + 1)))
        rep.add(core.smt(base + "/spacing-within-one-unit", PROP, s, functions=fn, text="consecutive offsets differ by floor(step/(num-1)) or that plus one", budget_s=120, meta=dict(hint="quotient-remainder instances")))
        s = z3.Solver()
        s.add(pre, k >= 0, k <= num - 1)
        s.add(qk == elt(k), k * step == qk * n + rk, rk >= 0, rk < n)
        s.add(z3.Not(z3.And(qk >= 0, qk <= step)))
        rep.add(core.smt(base + "/within-step", PROP, s, functions=fn, text="0 <= offset_k <= step: start + offset never passes end", budget_s=120))
        s = z3.Solver()
        s.add(pre, k >= 0, k + 1 <= num - 1, step >= num - 1)
        s.add(qk == elt(k), qk1 == elt(k + 1))
        s.add(k * step == qk * n + rk, rk >= 0, rk < n, (k + 1) * step == qk1 * n + rk1, rk1 >= 0, rk1 < n)
        s.add(qk1 <= qk)
        rep.add(core.smt(base + "/strictly-increasing-when-step>=num-1", PROP, s, functions=fn, text="step >= num-1 => offsets strictly increase (no repeated samples)", budget_s=120))
        # consistency of the hint: the hint constraints are implied by the definitions (so they exclude nothing)
        s = z3.Solver()
        s.add(pre, k >= 0, k <= num - 1, qk == elt(k), rk == k * step - qk * n, z3.Not(z3.And(rk >= 0, rk < n)))
        rep.add(core.smt(base + "/hint-justified", PROP, s, functions=fn, text="the quotient/remainder hint is the definition of floor division (not an assumption)", budget_s=120, kind="lemma"))
        s = z3.Solver()
        s.add(pre, k >= 0, k <= num - 1)
        rep.add(core.smt(base + "/cover", PROP, s, functions=fn, text="cover: precondition satisfiable", expect="sat", kind="cover", budget_s=10))


# ------------------------------------------------------------------------------------------- C
def plumbing_obligations(rep):
    """num at the default-bounds kernel site as a function of size and flags (real code, symbolic size)."""
    import functional_algorithms.utils as U

    src = inspect.getsource(U.real_samples)
    tree = ast.parse(src)
    # the statements that compute num are located by target name
    fdef = tree.body[0]
    stmts = [s for s in fdef.body if any(isinstance(t, ast.Name) and t.id in ("num", "size", "user_specified_bounds") for t in ast.walk(s) if isinstance(t, ast.Name) and isinstance(getattr(t, "ctx", None), ast.Store))]
    rep.add(core.decided("C19/plumbing/located", PROP, len(stmts) >= 2, functions=("utils.real_samples",), text="statements assigning size/num/user_specified_bounds located: %d" % len(stmts), detail=dict(src=[ast.unparse(s)[:200] for s in stmts])))


# ------------------------------------------------------------------------------------------- B
def fin(e):
    return z3.Not(z3.Or(z3.fpIsInf(e), z3.fpIsNaN(e)))


def subnormal(e):
    return z3.fpIsSubnormal(e)


class Raised:
    def __init__(self, e):
        self.e = e


def configs(tier):
    sizes = [1, 2, 3, 4] if tier == "quick" else [1, 2, 3, 4, 5, 6]
    types_ = [numpy.float16, numpy.float32] if tier == "quick" else [numpy.float16, numpy.float32, numpy.float64]
    out = []
    for t in types_:
        for size in sizes:
            for inc_sub in (False, True):
                for inc_zero in (True, False):
                    for region in ("nonneg", "nonpos", "straddle"):
                        if region != "straddle" and not inc_zero:
                            continue  # include_zero only matters when the bounds straddle zero
                        out.append(dict(t=t, size=size, include_subnormal=inc_sub, include_zero=inc_zero, region=region))
    return out


def run_config(cfg):
    """explore the real real_samples for one configuration; returns list of (suffix, smt2|None, ok|None, text, meta)"""
    import functional_algorithms.utils as U

    t = cfg["t"]
    eb, sb = FMT[t]
    W = WIDTH[t]  # python ints of this run fit easily; the no-overflow side obligations check it
    S = z3.FPSort(eb, sb)
    lo, hi = z3.FP("lo", S), z3.FP("hi", S)
    g = reglobal(U)

    def diff_ulp_contract(x, y, flush_subnormals=U.UNSPECIFIED, equal_nan=False):
        # C14: for finite same-type scalars the result is |rank(x) - rank(y)|
        from vf.contracts.C14 import babs, rank

        def ex(v):
            return v.e if isinstance(v, SymFP) else symrun.fpval(v, FMT[t])

        return SymInt(babs(rank(ex(x), t, W) - rank(ex(y), t, W)))

    g["diff_ulp"] = diff_ulp_contract
    real_rs = g["real_samples"]

    def rs_boundary(size=10, dtype=numpy.float32, **kw):
        # engine case split at the function boundary: a symbolic requested size is concretised by forking
        if isinstance(size, SymInt):
            for c in range(-2, 12):
                if bool(size == c):
                    size = c
                    break
            else:
                raise symrun.Unsupported("recursive size outside [-2, 11]")
        return real_rs(size=size, dtype=dtype, **kw)

    g["real_samples"] = rs_boundary
    zero = z3.FPVal(0.0, S)
    region = cfg["region"]

    def run(e):
        e.assume(fin(lo))
        e.assume(fin(hi))
        e.assume(z3.fpLT(lo, hi))
        if region == "nonneg":
            e.assume(z3.fpGEQ(lo, zero))
        elif region == "nonpos":
            e.assume(z3.fpLEQ(hi, zero))
        else:
            e.assume(z3.fpLT(lo, zero))
            e.assume(z3.fpGT(hi, zero))
        r = real_rs(size=cfg["size"], dtype=SymDType(t), include_subnormal=cfg["include_subnormal"], include_zero=cfg["include_zero"], min_value=SymFP(lo, t), max_value=SymFP(hi, t), unique=True)
        return r

    paths = explore(run, int_width=W, max_paths=3000)
    out = []
    sn = symrun.fpval(numpy.finfo(t).smallest_normal, FMT[t])
    for p in paths:
        sig = p.sig()
        if p.exc is not None:
            out.append(("path=%s/returns-without-error" % sig, vc(p, z3.BoolVal(False)), None, "raised %s: %s" % (type(p.exc).__name__, p.exc), dict(exc=type(p.exc).__name__)))
            continue
        r = p.result
        if isinstance(r, numpy.ndarray):
            items = [SymFP(symrun.fpval(v, FMT[t]), t) for v in r]
            ok_type = r.dtype == numpy.dtype(t)
        elif isinstance(r, SymArray):
            items = list(r.items)
            ok_type = r.t is t and isinstance(r, UniqueOf)
        else:
            out.append(("path=%s/returns-array" % sig, None, False, "returned %r" % (type(r),), {}))
            continue
        out.append(("path=%s/dtype-and-unique" % sig, None, bool(ok_type), "result is numpy.unique(...) of an array of the requested dtype", {}))
        es = [x.e for x in items]
        goals = []
        if not es:
            out.append(("path=%s/contains-bounds" % sig, vc(p, z3.BoolVal(False)), None, "empty result cannot contain the bounds", {}))
            continue
        inc_sub = cfg["include_subnormal"]
        # effective bounds: a subnormal bound is moved to zero or to the smallest normal when subnormals are excluded
        def moved(b):
            if inc_sub:
                return lambda v: z3.fpEQ(v, b)
            return lambda v: z3.If(subnormal(b), z3.Or(z3.fpIsZero(v), z3.fpEQ(z3.fpAbs(v), sn)), z3.fpEQ(v, b))

        goals.append(("contains-bounds", z3.And(moved(lo)(es[0]), moved(hi)(es[-1]))))
        goals.append(("no-nan", z3.And([z3.Not(z3.fpIsNaN(v)) for v in es])))
        goals.append(("nondecreasing-before-unique", z3.And([z3.fpLEQ(a, b) for a, b in zip(es, es[1:])]) if len(es) > 1 else z3.BoolVal(True)))
        goals.append(("within-bounds", z3.And([z3.And(z3.fpLEQ(es[0], v), z3.fpLEQ(v, es[-1])) for v in es])))
        if not inc_sub:
            goals.append(("no-subnormals", z3.And([z3.Not(subnormal(v)) for v in es])))
        # spacing: consecutive non-zero same-sign normal-or-subnormal neighbours: differences of bit patterns within one unit
        diffs = []
        for a, b in zip(es, es[1:]):
            both_pos = z3.And(z3.fpGT(a, zero), z3.fpGT(b, zero))
            both_neg = z3.And(z3.fpLT(a, zero), z3.fpLT(b, zero))
            ba = z3.ZeroExt(W - (eb + sb), z3.fpToIEEEBV(z3.fpAbs(a)))
            bb = z3.ZeroExt(W - (eb + sb), z3.fpToIEEEBV(z3.fpAbs(b)))
            d = z3.If(bb >= ba, bb - ba, ba - bb)
            diffs.append((both_pos, both_neg, d))
        sp = []
        for (p1, n1, d1), (p2, n2, d2) in itertools.combinations(diffs, 2):
            same = z3.Or(z3.And(p1, p2), z3.And(n1, n2))
            sp.append(z3.Implies(same, z3.And(d1 - d2 <= 1, d2 - d1 <= 1)))
        if sp:
            goals.append(("equal-spacing-up-to-one-ulp", z3.And(sp)))
        for name, gl in goals:
            m = {}
            if name.startswith("equal-spacing") and cfg["size"] >= 4:
                # division by 3+ on wide vectors: no head-room.  Spacing for every num is layer A's lemma;
                # here it is attempted with a short budget and never counted.
                m = dict(claimed=False, budget_s=20)
            out.append(("path=%s/%s" % (sig, name), vc(p, gl), None, name, m))
        if p.side:
            out.append(("path=%s/int-model-no-overflow" % sig, symrun.side_vc(p), None, "python-int model sound on this path", dict(kind="lemma")))
    return out


def cfg_id(cfg):
    return "C19/utils.real_samples/%s/size=%d/include_subnormal=%s/include_zero=%s/%s" % (cfg["t"].__name__, cfg["size"], cfg["include_subnormal"], cfg["include_zero"], cfg["region"])


def _job(cfg):
    import traceback

    try:
        return cfg, run_config(cfg), None
    except symrun.Unsupported as e:
        return cfg, [], "unsupported: %s" % e
    except Exception:
        return cfg, [], traceback.format_exc()[-1500:]


def code_obligations(rep, tier):
    import multiprocessing as mp

    cfgs = configs(tier)
    ctx = mp.get_context("fork")
    with ctx.Pool(core.NPROC) as pool:
        results = pool.map(_job, cfgs, chunksize=1)
    fn = ("utils.real_samples",)
    for cfg, items, err in results:
        base = cfg_id(cfg)
        meta0 = dict(t=cfg["t"].__name__, size=cfg["size"], include_subnormal=cfg["include_subnormal"], include_zero=cfg["include_zero"], region=cfg["region"])
        if err:
            if err.startswith("unsupported"):
                rep.add(core.decided(base + "/engine", PROP, None, functions=fn, text=err, meta=meta0, claimed=False))
            else:
                rep.add(core.decided(base + "/engine", PROP, core.ERROR, functions=fn, text=err, detail=err, meta=meta0))
            continue
        for suffix, smt2, ok, text, meta in items:
            m = dict(meta0, **meta)
            if smt2 is not None:
                # float64 (thorough tier only) and sizes above 4 have no solver head-room on a loaded machine: attempted, not claimed
                heavy = cfg["t"] is numpy.float64 or cfg["size"] > 4
                rep.add(core.smt(base + "/" + suffix, PROP, smt2, functions=fn, text=text, budget_s=m.get("budget_s", 120), meta=m, kind=m.get("kind", "vc"), claimed=m.get("claimed", True) and not heavy))
            else:
                rep.add(core.decided(base + "/" + suffix, PROP, ok, functions=fn, text=text, meta=m))


# ------------------------------------------------------------------------------------------- D: products
def product_obligations(rep):
    """complex / pair / triple generators = Cartesian products of 1-D samples.  Modular: `real_samples` is replaced by
    a recording stub (its own contract is layers A-C); every flag combination and bound form (None / scalar / tuple)
    is enumerated; bounds are distinct sentinels that the code only passes on (parametricity)."""
    import itertools as it

    import functional_algorithms.utils as U

    fn_names = ("utils.complex_samples", "utils.real_pair_samples", "utils.complex_pair_samples", "utils.real_triple_samples")
    flags = ["include_infinity", "include_zero", "include_subnormal", "include_nan", "include_huge", "nonnegative"]
    calls = []
    counter = [0]

    def stub(size=10, dtype=numpy.float32, **kw):
        counter[0] += 1
        calls.append(dict(size=size, dtype=dtype, **kw))
        base = counter[0] * 100.0
        # distinct markers, with a signed zero, an infinity and a nan among them
        vals = [base + 1, base + 2, -0.0, numpy.inf, numpy.nan][: max(1, min(size, 5))]
        return numpy.array(vals, dtype=dtype)

    def run(name, **kw):
        del calls[:]
        counter[0] = 0
        g = dict(U.__dict__)
        g["real_samples"] = stub
        import types as _t

        for n in ("complex_samples", "real_pair_samples", "complex_pair_samples", "real_triple_samples", "_fix_limit_value"):
            f = getattr(U, n)
            g[n] = _t.FunctionType(f.__code__, g, n, f.__defaults__, f.__closure__)
            g[n].__kwdefaults__ = f.__kwdefaults__
        return g[name](**kw), [dict(c) for c in calls]

    def bits(a):
        a = numpy.asarray(a)
        if a.dtype.kind == "c":
            return list(zip(bits(a.real.ravel()), bits(a.imag.ravel())))
        return [x.tobytes() for x in a.ravel()]

    bad = {n: [] for n in fn_names}
    n_cases = {n: 0 for n in fn_names}
    flag_sets = [dict(zip(flags, v)) for v in it.product([True, False], repeat=len(flags))]
    # every flag individually flipped from a base suffices to detect a swapped/dropped flag; all 64 combinations are cheap
    for fl in flag_sets:
        for dtype in (numpy.float32, numpy.float64):
            # complex_samples
            for bounds in (dict(), dict(min_real_value=1.5, max_real_value=2.5, min_imag_value=3.5, max_imag_value=4.5)):
                n_cases["utils.complex_samples"] += 1
                (out, cl) = run("complex_samples", size=(3, 4), dtype=dtype, **fl, **bounds)
                exp = [dict(size=3, dtype=dtype, **fl, min_value=bounds.get("min_real_value"), max_value=bounds.get("max_real_value")), dict(size=4, dtype=dtype, **fl, min_value=bounds.get("min_imag_value"), max_value=bounds.get("max_imag_value"))]
                if cl != exp:
                    bad["utils.complex_samples"].append(("calls", fl, bounds, cl))
                    continue
                re_, im_ = stub(3, dtype), stub(4, dtype)
                re_, im_ = numpy.array([101, 102, -0.0][:3], dtype=dtype), numpy.array([201, 202, -0.0, numpy.inf], dtype=dtype)
                want = sorted((r.tobytes(), i.tobytes()) for r in re_ for i in im_)
                got = sorted(bits(out))
                if got != want or out.shape != (4, 3):
                    bad["utils.complex_samples"].append(("product", str(dtype), "shape %s" % (out.shape,), [g for g in got if g not in want][:2]))
        if fl != flag_sets[0] and fl != flag_sets[-1] and sum(fl.values()) not in (1, 5):
            continue
        dtype = numpy.float32
        for form in ("none", "scalar", "tuple"):
            def bnd(lo, hi, dims):
                if form == "none":
                    return None, None, (None,) * dims, (None,) * dims
                if form == "scalar":
                    return lo, hi, (lo,) * dims, (hi,) * dims
                los = tuple(lo + 10 * k for k in range(dims))
                his = tuple(hi + 10 * k for k in range(dims))
                return los, his, los, his

            # real_pair_samples
            n_cases["utils.real_pair_samples"] += 1
            lo, hi, los, his = bnd(1.5, 2.5, 2)
            (out, cl) = run("real_pair_samples", size=(2, 3), dtype=dtype, **fl, min_value=lo, max_value=hi)
            exp = [dict(size=(2, 3)[k], dtype=dtype, **fl, min_value=los[k], max_value=his[k]) for k in range(2)]
            if cl != exp:
                bad["utils.real_pair_samples"].append(("calls", form, cl))
            else:
                a, b = numpy.array([101, 102], dtype=dtype), numpy.array([201, 202, -0.0], dtype=dtype)
                want = sorted((x.tobytes(), y.tobytes()) for x in a for y in b)
                got = sorted(zip(bits(out[0]), bits(out[1])))
                if got != want:
                    bad["utils.real_pair_samples"].append(("product", form))
            # real_triple_samples
            n_cases["utils.real_triple_samples"] += 1
            lo, hi, los, his = bnd(1.5, 2.5, 3)
            (out, cl) = run("real_triple_samples", size=(2, 3, 2), dtype=dtype, **fl, min_value=lo, max_value=hi)
            exp = [dict(size=(2, 3, 2)[k], dtype=dtype, **fl, min_value=los[k], max_value=his[k]) for k in range(3)]
            if cl != exp:
                bad["utils.real_triple_samples"].append(("calls", form, cl))
            else:
                a, b, c = numpy.array([101, 102], dtype=dtype), numpy.array([201, 202, -0.0], dtype=dtype), numpy.array([301, 302], dtype=dtype)
                want = sorted((x.tobytes(), y.tobytes(), z.tobytes()) for x in a for y in b for z in c)
                got = sorted(zip(bits(out[0]), bits(out[1]), bits(out[2])))
                if got != want:
                    bad["utils.real_triple_samples"].append(("product", form))
            # complex_pair_samples
            n_cases["utils.complex_pair_samples"] += 1
            rlo, rhi, rlos, rhis = bnd(1.5, 2.5, 2)
            ilo, ihi, ilos, ihis = bnd(3.5, 4.5, 2)
            (out, cl) = run("complex_pair_samples", size=((2, 3), (2, 2)), dtype=dtype, **fl, min_real_value=rlo, max_real_value=rhi, min_imag_value=ilo, max_imag_value=ihi)
            exp = []
            for k in range(2):
                exp.append(dict(size=((2, 3), (2, 2))[k][0], dtype=dtype, **fl, min_value=rlos[k], max_value=rhis[k]))
                exp.append(dict(size=((2, 3), (2, 2))[k][1], dtype=dtype, **fl, min_value=ilos[k], max_value=ihis[k]))
            if cl != exp:
                bad["utils.complex_pair_samples"].append(("calls", form, [c for c, e in zip(cl, exp) if c != e][:1]))
            else:
                r1, i1 = numpy.array([101, 102], dtype=dtype), numpy.array([201, 202, -0.0], dtype=dtype)
                r2, i2 = numpy.array([301, 302], dtype=dtype), numpy.array([401, 402], dtype=dtype)
                want = sorted(((a.tobytes(), b.tobytes()), (c.tobytes(), d.tobytes())) for a in r1 for b in i1 for c in r2 for d in i2)
                got = sorted(zip(bits(out[0]), bits(out[1])))
                if got != want:
                    bad["utils.complex_pair_samples"].append(("product", form))
    for n in fn_names:
        rep.under_contract(n, "calls real_samples with the operand's own size/bounds and unchanged flags; output is the Cartesian product, bit for bit")
        rep.add(core.decided("C19/products/%s" % n.split(".")[1], PROP, not bad[n], functions=(n,), text="%d flag/bound-form cases: 1-D calls receive exactly the operand's parameters and the result is the Cartesian product of the returned 1-D arrays (bit patterns, signed zero / inf / nan included)" % n_cases[n], detail=dict(bad=[str(b)[:400] for b in bad[n][:3]], cases=n_cases[n]), meta=dict(products=n, bad=[str(b)[:300] for b in bad[n][:2]])))


# ------------------------------------------------------------------------------------------- replay
def native_replay(o):
    import warnings

    import functional_algorithms.utils as U

    meta = o.meta or {}
    if "t" not in meta:
        return dict(replayed=False, witness_class=None)
    t = getattr(numpy, meta["t"])
    m = o.model or {}
    if "lo" not in m or "hi" not in m or m["lo"].get("bits") is None:
        return dict(replayed=False, witness_class="%s size=%s %s" % (meta.get("t"), meta.get("size"), meta.get("region")), note="no model values for lo/hi")
    lo = UINT[t](m["lo"]["bits"]).view(t)
    hi = UINT[t](m["hi"]["bits"]).view(t)
    info = dict(lo=repr(lo), hi=repr(hi), size=meta["size"], include_subnormal=meta["include_subnormal"], include_zero=meta["include_zero"])
    fi = numpy.finfo(t)
    try:
        with warnings.catch_warnings():
            warnings.simplefilter("ignore")
            r = U.real_samples(size=meta["size"], dtype=t, include_subnormal=meta["include_subnormal"], include_zero=meta["include_zero"], min_value=lo, max_value=hi)
        info["result"] = repr(r)
        bad = []
        if len(r) == 0:
            bad.append("empty")
        else:
            def is_sub(v):
                return v != 0 and abs(v) < fi.smallest_normal

            def moved_ok(v, b):
                if meta["include_subnormal"] or not is_sub(b):
                    return v == b
                return v == 0 or abs(v) == fi.smallest_normal

            if not (moved_ok(r[0], lo) and moved_ok(r[-1], hi)):
                bad.append("bounds not contained")
            if numpy.isnan(r).any():
                bad.append("nan")
            if not (numpy.diff(r.astype(numpy.float64)) > 0).all():
                bad.append("not strictly increasing")
            if not ((r >= r[0]) & (r <= r[-1])).all() or r.min() < min(lo, -fi.smallest_normal if is_sub(lo) else lo) or r.max() > max(hi, fi.smallest_normal if is_sub(hi) else hi):
                bad.append("outside bounds")
            if not meta["include_subnormal"] and any(is_sub(v) for v in r):
                bad.append("subnormal")
            for sign in (1, -1):
                part = [v for v in r if v * sign > 0]
                bits = [int(abs(v).view(UINT[t])) for v in part]
                ds = [abs(b - a) for a, b in zip(bits, bits[1:])]
                # only neighbours in r count: recompute on adjacent indices
                idx = [i for i, v in enumerate(r) if v * sign > 0]
                ds = [abs(int(abs(r[j]).view(UINT[t])) - int(abs(r[i]).view(UINT[t]))) for i, j in zip(idx, idx[1:]) if j == i + 1]
                if ds and max(ds) - min(ds) > 1:
                    bad.append("unequal spacing %s" % ds)
        info["violations"] = bad
        info["replayed"] = bool(bad)
        info["witness_class"] = "; ".join(sorted(set(b.split(" ")[0] for b in bad))) if bad else None
    except Exception as e:
        info.update(replayed=True, raised="%s: %s" % (type(e).__name__, e), witness_class="raises %s" % type(e).__name__)
    return info


def kernel_replay(o):
    """evaluate the located comprehension natively at the model's (num, step) and test the clause in Python"""
    import functional_algorithms.utils as U

    m = o.model or {}
    try:
        num, step = m["num"]["value"], m["step"]["value"]
    except Exception:
        return dict(replayed=False, witness_class=None)
    idx = int(o.id.split("/site")[1].split("/")[0])
    node = find_kernels(inspect.getsource(U.real_samples))[idx]
    if num * 1 > 200000:
        return dict(replayed=False, witness_class="site%d" % idx, note="model too large to enumerate")
    q = eval(compile(ast.Expression(node), "<kernel>", "eval"), {}, dict(num=num, step=step))
    D = step // (num - 1) if num > 1 else None
    bad = []
    if len(q) != num:
        bad.append("length %d != num %d" % (len(q), num))
    if q and (q[0] != 0 or q[-1] != step):
        bad.append("endpoints %s..%s, want 0..%s" % (q[0], q[-1], step))
    if any(not (0 <= v <= step) for v in q):
        bad.append("offset outside [0, step]")
    ds = {b - a for a, b in zip(q, q[1:])}
    if D is not None and not ds <= {D, D + 1}:
        bad.append("spacing %s not within {%d, %d}" % (sorted(ds)[:4], D, D + 1))
    return dict(replayed=bool(bad), num=num, step=step, offsets=q[:8], violations=bad, witness_class="site%d %s" % (idx, "; ".join(b.split(" ")[0] for b in bad)))


def build(tier):
    rep = core.Report(PROP, tier)
    rep.trust("z3 5.1 (Int/NIA for the kernel lemmas, FP/BV for the code paths); cvc5 fallback", "E2 models of NumPy (see assumptions); ast-to-Int translation of the located comprehension (+,-,*,// over names and int constants)")
    rep.assume(*symrun.MODELS_DOC)
    rep.assume(
        "range(a, b, c) with c > 0 enumerates a + j*c while < b (Python semantics, executed literally by SymRange)",
        "numpy.unique(a) on a non-decreasing array (with +0 == -0) returns a with repeated neighbours removed (recorded, not computed)",
        "numpy.array(list of Python ints, dtype=uintN) raises OverflowError outside [0, 2**N) (NumPy 2)",
        "int(a / b) for Python ints a >= 0, b > 0 is floor(a/b) or floor(a/b)+1 (true division rounds to nearest) - over-approximated by both",
        "diff_ulp at the zero-straddling split is replaced by its contract |rank(x)-rank(y)| (discharged under C14)",
        "bounds: finite, non-NaN, min_value < max_value; requested sizes 1..4 (quick) / 1..6 (thorough) for layer B - a stated bound; layer A is unbounded in num",
    )
    rep.bounded.append(dict(what="layer B runs the real real_samples with a concrete requested size", bound="size in 1..4 at float16/float32 claimed; sizes 5..6 and float64 (thorough tier) attempted, not claimed; values of the bounds are universally quantified", counted_as_proved=False if False else "per-size obligations are proofs for that size; sizes beyond the bound rest on layer A + the size-independent structure of the code, which is NOT mechanically connected"))
    rep.extraction_drops.append("layer A: only the comprehension `elt for i in range(...)` is extracted (by AST) - everything around it is covered by layer B for small sizes; Cartesian-product generators (complex/pair/triple samples) and the default-bounds special values (infinities, huge, nan) are not under contract")
    rep.under_contract("utils.real_samples", ["kernel: length, endpoints, spacing, monotonicity (all num >= 2)", "user bounds: returns without error, contains bounds, within bounds, non-decreasing before unique, no NaN/subnormal unless requested, equal same-sign spacing up to 1 ULP"])
    kernel_obligations(rep)
    plumbing_obligations(rep)
    code_obligations(rep, tier)
    product_obligations(rep)
    k, n = z3.Ints("k n")
    s = z3.Solver()
    s.add(n >= 1, k >= 0, k <= n, (k * 7) / n > 7)
    rep.add(core.smt("C19/canary/offset-beyond-step", PROP, s, text="canary (must be unsat-as-sat inverted): an offset beyond step would be found", expect="unsat", kind="lemma", budget_s=20))
    s = z3.Solver()
    s.add(n >= 1, k >= 0, k <= n, (k * 7) / n == 3)
    rep.add(core.smt("C19/canary/reachable-offset", PROP, s, text="canary: some offset equals 3", expect="sat", kind="canary", budget_s=20))
    rep.replayers["C19/utils.real_samples/"] = native_replay
    rep.replayers["C19/products/"] = lambda o: dict(replayed=bool((o.meta or {}).get("bad")), witness_class="%s %s" % ((o.meta or {}).get("products"), ((o.meta or {}).get("bad") or [""])[0][:80]), bad=(o.meta or {}).get("bad"))
    rep.replayers["C19/kernel/"] = kernel_replay
    # bounded stand-in: the real real_samples natively for many sizes, all flag combinations, directed bounds (never proofs)
    from vf.contracts import C19_bounded

    C19_bounded.run(rep, tier)
    rep.replayers["C19/bounded"] = C19_bounded.replay
    return rep


def main(tier, only=None):
    rep = build(tier)
    if only:
        rep.obls = [o for o in rep.obls if only in o.id]
    return rep.finish()


def replay(path):
    d = json.load(open(path))
    o = core.Obligation(id=d["obligation"], prop=PROP, model=d.get("model"), meta=d.get("meta") or {})
    if (o.meta or {}).get("part") == "bounded":
        print(json.dumps(o.meta.get("fails"), indent=1, default=str))
        return 1 if o.meta.get("fails") else 0
    info = native_replay(o)
    print(json.dumps(info, indent=1, default=str))
    return 1 if info.get("replayed") else 0
