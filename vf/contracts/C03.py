"""C03 - symmetries and cross-function identities of the algorithms hold bit for bit.

The algorithm definitions are traced with the repository's tracer and every non-primitive kind (and every native
kind applied to a complex operand) is expanded through the package's own definitions (vf/dagfp.expand); the
loop-free DAG is translated to SMT with add/subtract/multiply/divide/sqrt and the real natives as UNINTERPRETED
functions and negation/abs/comparisons/select/min/max interpreted exactly.  An identity is the obligation
`pre => bits(lhs) == bits(rhs)` (structural FP equality: one NaN, +0 != -0) over two translations of the DAG(s).
The abstraction is justified by a lemma library - single-operation IEEE facts, each discharged bit-precisely per
format - that is instantiated on the arguments of every uninterpreted application that occurs (ground instances).
Assumed contracts on natives: atan2 is odd in its first argument (sign of zero included), sin odd, cos even.

A `sat` answer at the abstract level is only a candidate: it is replayed on the real generated NumPy function; if it
does not reproduce, the obligation is reported undecided-abstract (best-effort), never as a violation.
"""
from __future__ import annotations

import json
import time
import traceback
import warnings

import numpy
import z3

from vf import core, dagfp

PROP = "C03"
n = z3.fpNeg
CT = {"float32": numpy.complex64, "float64": numpy.complex128}
COMPLEX_FUNCS = ["absolute", "acos", "acosh", "asin", "asinh", "atan", "atanh", "exp", "log", "log1p", "log2", "log10", "sqrt", "square"]
# identities that discharge with head-room in the uninterpreted abstraction (measured); the others are generated and
# attempted but not claimed (their abstract counter-models need further zero/limit lemmas)
CLAIMED = {
    ("conj", k) for k in ("absolute", "acos", "acosh", "asin", "asinh", "atan", "exp", "sqrt", "square")
} | {("rot", "asinh"), ("rot", "atan"), ("imag-acos-asin", "acos"), ("odd", "asin"), ("odd", "asinh"), ("rot", "acosh")}

_G = {}


def graph(name, tname):
    k = (name, tname)
    if k not in _G:
        g = dagfp.expand(name, (CT[tname],))
        _G[k] = (g.operands[-1], g.operands[1].operands[0])
    return _G[k]


def identities(tname):
    out = []

    def conj(name):
        def f(den, x, y):
            b, z = graph(name, tname)
            r1 = den.val(b, {z: (x, y)})
            r2 = den.val(b, {z: (x, n(y))})
            if not isinstance(r1, tuple):
                return [z3.Not(z3.fpIsZero(y))], r2 == r1
            return [z3.Not(z3.fpIsZero(y))], z3.And(r2[0] == r1[0], r2[1] == n(r1[1]))

        return f

    def odd(name):
        def f(den, x, y):
            b, z = graph(name, tname)
            r1 = den.val(b, {z: (x, y)})
            r2 = den.val(b, {z: (n(x), n(y))})
            return [z3.Not(z3.fpIsZero(y)), z3.Not(z3.fpIsZero(x))], z3.And(r2[0] == n(r1[0]), r2[1] == n(r1[1]))

        return f

    def even(name):
        def f(den, x, y):
            b, z = graph(name, tname)
            r1 = den.val(b, {z: (x, y)})
            r2 = den.val(b, {z: (n(x), n(y))})
            return [z3.Not(z3.fpIsZero(y)), z3.Not(z3.fpIsZero(x))], z3.And(r2[0] == r1[0], r2[1] == r1[1])

        return f

    def rot(derived, parent):
        # derived(z) = -i * parent(i z):  i z = (-y, x);  -i (u + i v) = (v, -u)
        def f(den, x, y):
            b1, z1 = graph(derived, tname)
            b2, z2 = graph(parent, tname)
            a = den.val(b1, {z1: (x, y)})
            w = den.val(b2, {z2: (n(y), x)})
            return [], z3.And(a[0] == w[1], a[1] == n(w[0]))

        return f

    def rot_acosh(den, x, y):
        b1, z1 = graph("acosh", tname)
        b2, z2 = graph("acos", tname)
        a = den.val(b1, {z1: (x, y)})
        w = den.val(b2, {z2: (x, y)})
        # i w = (-im w, re w) when imag z is not negative, -i w = (im w, -re w) otherwise; zero imaginary parts lie on (or at
        # the end of) acos' branch cut, where the statement leaves the sign of zero free
        nonneg = z3.Not(z3.fpLT(y, z3.FPVal(0.0, den.S)))
        return [z3.Not(z3.fpIsZero(y))], z3.If(nonneg, z3.And(a[0] == n(w[1]), a[1] == w[0]), z3.And(a[0] == w[1], a[1] == n(w[0])))

    def imag_acos_asin(den, x, y):
        b1, z1 = graph("acos", tname)
        b2, z2 = graph("asin", tname)
        a = den.val(b1, {z1: (x, y)})
        w = den.val(b2, {z2: (x, y)})
        return [], a[1] == n(w[1])

    for k in COMPLEX_FUNCS:
        out.append(("conj", k, conj(k), "f(conj z) = conj f(z) for imag z != +-0"))
    for k in ("asin", "asinh", "atan", "atanh"):
        out.append(("odd", k, odd(k), "f(-z) = -f(z) for non-zero components"))
    out.append(("even", "square", even("square"), "square(-z) = square(z)"))
    out.append(("rot", "asinh", rot("asinh", "asin"), "asinh(z) = -i asin(i z)"))
    out.append(("rot", "atan", rot("atan", "atanh"), "atan(z) = -i atanh(i z)"))
    out.append(("rot", "acosh", rot_acosh, "acosh(z) = +-i acos(z) by the sign of imag z (imag z != +-0)"))
    out.append(("imag-acos-asin", "acos", imag_acos_asin, "imag acos(z) = -imag asin(z)"))
    return out


def lemma_obligations(rep, tname):
    S = z3.FPSort(*dagfp.FMT[tname])
    for name, (a, b, stmt) in dagfp.lemma_statements(S).items():
        s = z3.Solver()
        s.add(z3.Not(stmt))
        # structural equality with a single NaN is what the abstraction uses; IEEE operations return NaN for NaN operands
        heavy = tname == "float64" and name in ("div-neg-left", "div-neg-right", "div-abs", "add-neg-both", "sub-neg-both", "sub-swap", "mul-abs")
        rep.add(core.smt("C03/lemma/%s/%s" % (tname, name), PROP, s, functions=("vf.dagfp.lemma-library",), text="IEEE fact used by ground instantiation: %s (%s)" % (name, tname), kind="lemma", budget_s=300 if not heavy else 45, claimed=not heavy))


def replay_model(o):
    """evaluate the real generated NumPy function (package pipeline) at the model point and test the identity natively"""
    meta = o.meta or {}
    m = o.model or {}
    tname = meta.get("t")
    if not tname or "x" not in m or m["x"].get("bits") is None:
        return dict(replayed=False, witness_class=None)
    import functional_algorithms as fa
    from functional_algorithms import algorithms, rewrite, targets

    t = getattr(numpy, tname)
    ut = {"float32": numpy.uint32, "float64": numpy.uint64}[tname]
    x, y = ut(m["x"]["bits"]).view(t), ut(m["y"]["bits"]).view(t)
    ct = CT[tname]

    cache = {}

    def fn(name):
        if name in cache:
            return cache[name]
        cache[name] = _mk(name)
        return cache[name]

    def _mk(name):
        with warnings.catch_warnings():
            warnings.simplefilter("ignore")
            g = dagfp.expand(name, (ct,))
            # the expanded graph contains only kinds the NumPy target prints
            return targets.numpy.as_function(g, debug=0)

    def Z(a, b):
        r = numpy.empty(1, dtype=ct)
        r.real[0], r.imag[0] = a, b
        return r[0]

    def bits(v):
        v = ct(v)
        f = lambda q: "nan" if numpy.isnan(q) else t(q).tobytes().hex()  # noqa
        return (f(v.real), f(v.imag))

    kind, name = meta["identity"], meta["func"]
    info = dict(x=repr(x), y=repr(y), witness_class="%s %s %s" % (kind, name, tname))
    # the abstract model need not be a real counterexample: also look on the special-value lattice around it (the
    # diagonals |x| = |y|, powers of two, the model's own components permuted and negated)
    rnd = numpy.random.default_rng(core.SEED)
    base = [x, y, t(1), t(0.5), t(2), t(10.430907), t(1e-3), t(1e3), numpy.finfo(t).tiny, numpy.finfo(t).max, t(0.28), t(0.7)] + [t(v) for v in rnd.uniform(0.01, 20, 40)]
    cands = [(x, y)]
    for a in base:
        for b in (a, -a):
            cands += [(a, b), (-a, b)]
    for a in base[:8]:
        for b in base[:8]:
            cands += [(a, b), (a, -b), (-a, b)]
    for cx, cy in cands:
        r = _replay_point(info, kind, name, fn, Z, bits, t, cx, cy)
        if r:
            info.update(x=repr(cx), y=repr(cy), replayed=True)
            return info
    info["replayed"] = False
    info["points_tried"] = len(cands)
    return info


def _replay_point(info, kind, name, fn, Z, bits, t, x, y):
    try:
        if not (numpy.isfinite(x) or numpy.isinf(x)) or numpy.isnan(y) or y == 0 or (kind in ("odd", "even") and x == 0):
            return False
        with numpy.errstate(all="ignore"), warnings.catch_warnings():
            warnings.simplefilter("ignore")
            f = fn(name)
            if kind == "conj":
                a, b = f(Z(x, y)), f(Z(x, -y))
                want = Z(a.real, -a.imag) if isinstance(a, numpy.complexfloating) else a
                ok = bits(b) == bits(want)
            elif kind in ("odd", "even"):
                a, b = f(Z(x, y)), f(Z(-x, -y))
                want = Z(-a.real, -a.imag) if kind == "odd" else a
                ok = bits(b) == bits(want)
            elif kind == "rot" and name in ("asinh", "atan"):
                w = fn({"asinh": "asin", "atan": "atanh"}[name])(Z(-y, x))
                a = f(Z(x, y))
                ok = bits(a) == bits(Z(w.imag, -w.real))
            elif kind == "rot":
                w = fn("acos")(Z(x, y))
                a = f(Z(x, y))
                ok = bits(a) == bits(Z(-w.imag, w.real) if not (y < 0) else Z(w.imag, -w.real))
            else:
                a, w = f(Z(x, y)), fn("asin")(Z(x, y))
                ok = bits(Z(0, a.imag))[1] == bits(Z(0, -w.imag))[1]
        if not ok:
            info["lhs"] = repr(a)
        return not ok
    except Exception:
        info["replay_error"] = traceback.format_exc()[-600:]
        return False


def build(tier):
    rep = core.Report(PROP, tier)
    rep.trust("z3 5.1 (QF_UFFP)", "the repository's tracer and definitions (expansion), vf/dagfp.py translation of the primitive kinds", "the lemma library is discharged bit-precisely per format (obligations C03/lemma/*)")
    rep.assume(
        "natives: atan2(-y, x) = -atan2(y, x) including the sign of zero, sin odd, cos even; log, log1p, exp, sqrt are deterministic functions of their bit patterns",
        "expansion: every kind outside {add, subtract, multiply, divide, negative, abs, sqrt, comparisons, logical ops, select, min/max, complex/real/imag, is_finite, real natives} and every native kind applied to a complex operand is expanded by the package's own definition, then the algebraic rewriter runs (as in the package's test pipeline)",
        "maximum/minimum denote the builtin max/min printed by the NumPy/Python targets",
        "float64 lemmas about division and the negated addition have no solver head-room: attempted, not claimed - the float64 identities that use them are therefore proved relative to those lemmas (stated per obligation)",
        "identities not in the CLAIMED set (conj of log/log1p/log2/log10/atanh, oddness of atan/atanh, zero-component lattice) are generated and attempted; their abstract counter-models do not replay on the real code and need further lemmas: reported as best-effort, never as proved or violated",
    )
    rep.extraction_drops.append("reference names, doc strings; the DAG is the repository's own trace")
    tnames = ["float32", "float64"]
    for tname in tnames:
        lemma_obligations(rep, tname)
        for kind, name, build_f, text in identities(tname):
            oid = "C03/%s/%s/%s" % (kind, name, tname)
            fnid = ("algorithms.%s" % name,)
            rep.under_contract(fnid[0], text) if (kind, name) in CLAIMED else None
            try:
                den = dagfp.Den(tname)
                den.signmag = False
                x, y = z3.FP("x", den.S), z3.FP("y", den.S)
                pre, goal = build_f(den, x, y)
                s = z3.Solver()
                s.add(z3.Not(z3.fpIsNaN(x)), z3.Not(z3.fpIsNaN(y)), *pre)
                for lem in dagfp.instantiate(den):
                    s.add(lem)
                s.add(z3.Not(goal))
                rep.add(core.smt(oid, PROP, s, functions=fnid, text="%s [%s, %d uninterpreted applications]" % (text, tname, len(den.apps)), claimed=(kind, name) in CLAIMED, budget_s=300 if (kind, name) in CLAIMED else 60, meta=dict(identity=kind, func=name, t=tname)))
            except Exception:
                rep.add(core.decided(oid, PROP, core.ERROR if (kind, name) in CLAIMED else None, functions=fnid, text=traceback.format_exc()[-800:], claimed=(kind, name) in CLAIMED))
    # canary: asin is not even - the machinery must find a counter-model
    den = dagfp.Den("float32")
    den.signmag = False
    x, y = z3.FP("x", den.S), z3.FP("y", den.S)
    b, z = graph("asin", "float32")
    r1, r2 = den.val(b, {z: (x, y)}), den.val(b, {z: (n(x), n(y))})
    s = z3.Solver()
    s.add(z3.Not(z3.fpIsNaN(x)), z3.Not(z3.fpIsNaN(y)), z3.Not(z3.fpIsZero(x)), z3.Not(z3.fpIsZero(y)))
    for lem in dagfp.instantiate(den):
        s.add(lem)
    s.add(z3.Not(z3.And(r2[0] == r1[0], r2[1] == r1[1])))
    rep.add(core.smt("C03/canary/asin-is-not-even", PROP, s, text="canary: asin(-z) = asin(z) must be refutable", expect="sat", kind="canary", budget_s=120))
    rep.replayers["C03/"] = replay_model
    # bounded stand-in: all identities (claimed or not) natively on a lattice + seeded points; never counted as proved
    from vf.contracts import C03_bounded

    C03_bounded.run(rep, tier)
    rep.replayers["C03/bounded"] = C03_bounded.replay
    return rep


def main(tier, only=None):
    rep = build(tier)
    if only:
        rep.obls = [o for o in rep.obls if only in o.id]
    return rep.finish()


def replay(path):
    d = json.load(open(path))
    o = core.Obligation(id=d["obligation"], prop=PROP, model=d.get("model"), meta=d.get("meta") or {})
    if (o.meta or {}).get("part") == "bounded":
        from vf.contracts import C03_bounded

        again = C03_bounded.rerun(o.meta)
        print(json.dumps(dict(recorded=o.meta.get("fails"), still_failing=again), indent=1, default=str))
        return 1 if again else 0
    info = replay_model(o)
    print(json.dumps(info, indent=1, default=str))
    return 1 if info.get("replayed") else 0
