"""Replay of a refuted E3 obligation on the real code: the abstract input of the path is re-built as a CONCRETE
expression (same shape decisions; symbolic payloads take the model's values; opaque leaves become symbols, or
witness sub-expressions on which the real sign inference knows at least what the path assumed), the REAL rule
method / inference property is applied natively, and input and output are evaluated by a direct interpreter at
the model's values."""
from __future__ import annotations

import math
from fractions import Fraction

import numpy


def _dec(meta):
    d = {}
    for k, v in meta.get("dec", []):
        k = tuple(k) if isinstance(k, list) else k
        v = tuple(v) if isinstance(v, list) else v
        d[k] = v
    return d


def _num(model, name, mode, default=None):
    v = model.get(name)
    if v is None:
        return default
    if v.get("sort") == "real":
        return Fraction(v["value"]) if "/" in str(v["value"]) or str(v["value"]).lstrip("-").isdigit() else default
    if v.get("sort") == "fp" and v.get("bits") is not None:
        from vf.symrun import UINT

        t = {16: numpy.float16, 32: numpy.float32, 64: numpy.float64}[v["eb"] + v["sb"]]
        return UINT[t](v["bits"]).view(t)
    if v.get("sort") == "bool":
        return bool(v["value"])
    return default


class Builder:
    def __init__(self, meta, model):
        import functional_algorithms as fa
        from vf import symexpr

        self.meta, self.model = meta, model
        self.mode = meta["mode"]
        self.dec = _dec(meta)
        self.ctx = fa.Context(paths=[])
        self.env = {}  # symbol name -> value
        self.byid = {}
        self.SIG = symexpr.SIG
        self.KNOW = symexpr.KNOWLEDGE
        self.variant = 0
        bits = {"real": None, "fp64py": None, "fp32": 32, "fp16": 16, "fp64": 64}[self.mode]
        self.ftype = "float%d" % bits if bits else "float"
        self.cls = {"fp32": numpy.float32, "fp16": numpy.float16, "fp64": numpy.float64, "fp64py": float, "real": float}[self.mode]

    def conv(self, v):
        if self.mode == "real":
            return v
        return self.cls(v)

    def hole(self, ty, hid):
        a = self.dec.get(("alias", hid))
        if a is not None:
            return self.byid[a]
        node = self.make(ty, hid)
        self.byid[hid] = node
        return node

    def make(self, ty, hid):
        ctx = self.ctx
        shape = self.dec.get(("shape", hid))
        if shape is None or shape[0] == "opaque":
            return self.leaf(ty, hid)
        like = ctx.symbol("_b", "boolean") if ty == "B" else ctx.symbol("_x", self.ftype)
        if shape[0] == "const":
            if ty == "B":
                return ctx.constant(bool(shape[1]), like)
            if shape[1] == "zero":
                val = self.cls(0.0)
            elif shape[1] == "one":
                val = self.cls(1.0)
            else:
                val = _num(self.model, "c" + hid, self.mode, 0)
                val = float(val) if self.mode in ("real", "fp64py") else self.cls(val)
            return ctx.constant(val, like)
        if shape[0] == "named":
            return ctx.constant(shape[1], like)
        kind = shape[1]
        tys = ("B", ty, ty) if kind == "select" else self.SIG[kind][0]
        ops = tuple(self.hole(t, "%s.%d" % (hid, i)) for i, t in enumerate(tys))
        from functional_algorithms.expr import Expr

        return Expr(ctx, kind, ops)

    def leaf(self, ty, hid):
        ctx = self.ctx
        name = "w" + hid.replace(".", "_")
        if ty == "B":
            self.env[name] = bool(_num(self.model, "v" + hid, self.mode, False))
            return ctx.symbol(name, "boolean")
        v = _num(self.model, "v" + hid, self.mode, 0)
        signs = frozenset(self.dec.get(("know", "h" + hid, "sign"), "nzp"))
        fin = bool(self.dec.get(("know", "h" + hid, "fin"), False))
        ki = 0 if (signs == frozenset("nzp") and not fin) else 1
        s = ctx.symbol(name, self.ftype)
        like = s
        c = lambda x: ctx.constant(float(x) if self.mode in ("real", "fp64py") else self.cls(x), like)  # noqa
        if self.variant == 2:
            return c(v)  # a plain constant: the real inference knows everything about it
        if ki == 0:
            self.env[name] = self.conv(v)
            return s
        # witness sub-expressions on which the REAL inference knows at least `signs` (value = model value)
        if fin or self.variant == 1:
            # constants carry exact knowledge; wrapped so that the node is not a constant itself
            if v >= 0:
                return abs(c(v))
            return -abs(c(-v))
        if signs <= frozenset("zp"):
            self.env[name] = self.conv(v)
            return abs(s)
        if signs <= frozenset("nz"):
            self.env[name] = self.conv(-v)
            return -abs(s)
        self.env[name] = self.conv(v)
        return s


def evaluate(e, env, mode):
    """direct evaluation of an Expr by kind (Fractions in Real mode, NumPy scalars of the pass's dtype otherwise)"""
    k = e.kind
    if k == "symbol":
        return env[e.operands[0]]
    if k == "constant":
        v = e.operands[0]
        if isinstance(v, str):
            t = {"fp32": numpy.float32, "fp16": numpy.float16}.get(mode, numpy.float64)
            fi = numpy.finfo(t)
            return dict(posinf=t(numpy.inf), neginf=t(-numpy.inf), largest=fi.max, smallest=fi.smallest_normal, smallest_subnormal=fi.smallest_subnormal, eps=fi.eps, pi=t(numpy.pi))[v]
        if isinstance(v, bool):
            return v
        if mode == "real":
            return Fraction(v) if isinstance(v, (int, float)) and math.isfinite(v) else v
        t = {"fp32": numpy.float32, "fp16": numpy.float16}.get(mode, numpy.float64)
        return t(v)
    a = [evaluate(o, env, mode) for o in e.operands]
    with numpy.errstate(all="ignore"):
        if k == "add":
            return a[0] + a[1]
        if k == "subtract":
            return a[0] - a[1]
        if k == "multiply":
            return a[0] * a[1]
        if k == "divide":
            if isinstance(a[0], float) or isinstance(a[1], float):
                return numpy.float64(a[0]) / numpy.float64(a[1])  # IEEE result (Python itself raises on a zero divisor)
            return a[0] / a[1]
        if k == "negative":
            return -a[0]
        if k == "positive":
            return a[0]
        if k == "absolute":
            return abs(a[0])
        if k == "square":
            return a[0] * a[0]
        if k == "sqrt":
            return a[0] ** Fraction(1, 2) if False else (numpy.sqrt(a[0]) if mode != "real" else Fraction(math.isqrt(a[0].numerator * a[0].denominator), a[0].denominator) if a[0] >= 0 else None)
        if k == "minimum":
            return min(a)
        if k == "maximum":
            return max(a)
        if k == "sign":
            return type(a[0])(1) if a[0] > 0 else (type(a[0])(-1) if a[0] < 0 else type(a[0])(0))
        if k in ("lt", "le", "gt", "ge", "eq", "ne"):
            x, y = a
            return bool({"lt": x < y, "le": x <= y, "gt": x > y, "ge": x >= y, "eq": x == y, "ne": x != y}[k])
        if k == "logical_and":
            return bool(a[0] and a[1])
        if k == "logical_or":
            return bool(a[0] or a[1])
        if k == "logical_xor":
            return bool(a[0]) != bool(a[1])
        if k == "logical_not":
            return not a[0]
        if k == "select":
            return a[1] if a[0] else a[2]
        if k == "is_finite":
            return bool(numpy.isfinite(float(a[0])))
        if k in ("upcast", "downcast"):
            return a[0]
        if k in ("log", "log2", "log10", "log1p", "exp", "sin", "cos", "tan", "sinh", "cosh", "tanh", "asin", "acos", "atan", "asinh", "acosh", "atanh", "expm1", "exp2"):
            f = getattr(numpy, {"asin": "arcsin", "acos": "arccos", "atan": "arctan", "asinh": "arcsinh", "acosh": "arccosh", "atanh": "arctanh"}.get(k, k))
            return f(numpy.float64(a[0])) if mode in ("real", "fp64py") else f(a[0])
    raise NotImplementedError(k)


def same(u, v, mode):
    if isinstance(u, (bool, numpy.bool_)) or isinstance(v, (bool, numpy.bool_)):
        return bool(u) == bool(v)
    if u is None or v is None:
        return u is v
    try:
        return bool(u == v) or (u != u and v != v)
    except Exception:
        return False


def replay(meta, model):
    import warnings

    import functional_algorithms.rewrite as R
    from functional_algorithms.expr import Expr

    out_info = dict(replayed=False)
    kind, typing = meta["kind"], meta.get("typing") or ()
    for variant in (0, 1, 2):
        b = Builder(meta, model)
        b.variant = variant
        with warnings.catch_warnings():
            warnings.simplefilter("ignore")
            if meta.get("prop"):
                if kind == "constant":
                    e = b.hole("F", "0")
                else:
                    ops = tuple(b.hole(t, str(i)) for i, t in enumerate(b.SIG[kind][0]))
                    e = Expr(b.ctx, kind, ops)
                ans = getattr(e, "_is_" + meta["prop"])
                val = evaluate(e, b.env, b.mode)
                P = dict(zero=lambda v: v == 0, nonzero=lambda v: v != 0, finite=lambda v: bool(numpy.isfinite(float(v))), nonnegative=lambda v: v >= 0, nonpositive=lambda v: v <= 0, positive=lambda v: v > 0, negative=lambda v: v < 0)[meta["prop"]]
                truth = bool(P(val))
                out_info.update(expr=str(e).replace("\n", " ")[:300], env={k: repr(v) for k, v in b.env.items()}, answer=repr(ans), value=repr(val), truth=truth)
                if ans is not None and bool(ans) != truth:
                    out_info["replayed"] = True
                    leafvals = [_num(model, k, b.mode) for k in model if k.startswith("v") or k.startswith("c")]
                    special = any(isinstance(x, (float, numpy.floating)) and (numpy.isinf(x) or x == 0) for x in leafvals)
                    out_info["witness_kind"] = "infinite-or-zero-operand" if special else "finite-nonzero-operands"
                    return out_info
                continue
            ops = tuple(b.hole(t, str(i)) for i, t in enumerate(typing))
            e = Expr(b.ctx, kind, ops)
            try:
                r = getattr(R.Rewriter(), kind)(e)
            except Exception as ex:
                out_info.update(expr=str(e).replace("\n", " ")[:300], raised=repr(ex), replayed=True)
                return out_info
        if r is None:
            out_info.update(expr=str(e).replace("\n", " ")[:300], note="rule returned None on the witness (different path)")
            continue
        try:
            v_in = evaluate(e, b.env, b.mode)
            v_out = evaluate(r, b.env, b.mode)
        except Exception as ex:
            out_info.update(eval_error=repr(ex))
            continue
        out_info.update(expr=str(e).replace("\n", " ")[:300], rewritten=str(r).replace("\n", " ")[:300], env={k: repr(v) for k, v in b.env.items()}, value_before=repr(v_in), value_after=repr(v_out), variant=variant)
        if not same(v_in, v_out, b.mode):
            out_info["replayed"] = True
            return out_info
    return out_info
