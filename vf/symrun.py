"""E2 - symrun: run the REAL code object of a function on symbolic scalars.

`reglobal(module)` returns a shadow namespace: a copy of the module's globals in which every function
defined in that module is re-created from ITS OWN code object (`types.FunctionType(f.__code__, shadow)`)
and a small, listed set of names is shadowed (isinstance, int, float, abs, bool, type, len, numpy ...).
Shadows behave exactly like the originals on concrete arguments and dispatch to a model on symbolic ones.
Symbolic values are plain Python objects, so any C-level access raises TypeError instead of concretising.

A symbolic truth value forks: the function is re-executed under a recorded decision prefix; each side is
first checked feasible under the path condition.
"""
from __future__ import annotations

import builtins
import types

import numpy
import z3

FMT = {numpy.float16: (5, 11), numpy.float32: (8, 24), numpy.float64: (11, 53)}
UINT = {numpy.float16: numpy.uint16, numpy.float32: numpy.uint32, numpy.float64: numpy.uint64}
FLOAT_OF_UINT = {v: k for k, v in UINT.items()}
RNE = z3.RNE()


class Unsupported(Exception):
    """the code did something the engine does not model: the function is outside the subset (never a verdict)"""


class Engine:
    cur = None

    def __init__(self, prefix=(), int_width=80, feas_timeout_ms=20000):
        self.prefix = list(prefix)
        self.decisions = []
        self.pc = []
        self.side = []  # (description, z3 Bool that must hold): no-overflow conditions of the wide-BV int model
        self.pending = []
        self.W = int_width
        self.solver = z3.Solver()
        self.solver.set("timeout", feas_timeout_ms)
        self.assumptions = []
        self.oplog = None  # set to [] to record every rounded arithmetic operation (E1)
        self.fresh = 0

    def assume(self, c):
        """precondition of the contract (part of every path condition)"""
        self.assumptions.append(c)
        self.solver.add(c)

    def assume_fact(self, c):
        """defining constraint of a fresh value introduced by a model (part of the path condition)"""
        self.pc.append(c)
        self.solver.add(c)

    def feasible(self, c):
        self.solver.push()
        self.solver.add(c)
        r = self.solver.check()
        self.solver.pop()
        return r != z3.unsat  # unknown counts as feasible (sound: at worst a vacuous path)

    def branch(self, cond):
        c = z3.simplify(cond)
        if z3.is_true(c):
            return True
        if z3.is_false(c):
            return False
        i = len(self.decisions)
        if i < len(self.prefix):
            choice = self.prefix[i]
        else:
            t = self.feasible(c)
            f = self.feasible(z3.Not(c))
            if t and f:
                choice = True
                self.pending.append(self.decisions + [False])
            elif t:
                choice = True
            elif f:
                choice = False
            else:
                raise Infeasible()
        self.decisions.append(choice)
        lit = c if choice else z3.Not(c)
        self.pc.append(lit)
        self.solver.add(lit)
        return choice

    def fresh_name(self, tag):
        self.fresh += 1
        return "%s!%d" % (tag, self.fresh)


class Infeasible(Exception):
    pass


def eng():
    if Engine.cur is None:
        raise Unsupported("symbolic operation outside an engine run")
    return Engine.cur


# ---------------------------------------------------------------------------------------------
# symbolic values
# ---------------------------------------------------------------------------------------------
class Sym:
    __slots__ = ()
    __hash__ = None
    __array_ufunc__ = None  # real ndarrays defer binary operations to the symbolic operand


class SymBool(Sym):
    __slots__ = ("e",)

    def __init__(self, e):
        self.e = e

    def __bool__(self):
        return eng().branch(self.e)

    def __and__(self, o):
        return SymBool(z3.And(self.e, _b(o)))

    __rand__ = __and__

    def __or__(self, o):
        return SymBool(z3.Or(self.e, _b(o)))

    __ror__ = __or__

    def __invert__(self):
        return SymBool(z3.Not(self.e))

    def __eq__(self, o):
        return SymBool(self.e == _b(o))

    def __ne__(self, o):
        return SymBool(self.e != _b(o))


def _b(o):
    if isinstance(o, SymBool):
        return o.e
    if isinstance(o, (bool, numpy.bool_)):
        return z3.BoolVal(bool(o))
    raise Unsupported("bool coercion of %r" % type(o))


def fpval(v, fmt):
    """concrete float/numpy scalar -> z3 FP value of the given format, exactly as numpy would cast it"""
    eb, sb = fmt
    t = {(5, 11): numpy.float16, (8, 24): numpy.float32, (11, 53): numpy.float64}[fmt]
    with numpy.errstate(all="ignore"):
        c = t(v)
    bits = int(c.view(UINT[t]))
    return z3.fpBVToFP(z3.BitVecVal(bits, eb + sb), z3.FPSort(eb, sb))


class SymFP(Sym):
    """a NumPy floating scalar of type `t` (numpy.float16/32/64)"""

    __slots__ = ("e", "t")

    def __init__(self, e, t):
        self.e, self.t = e, t

    @property
    def fmt(self):
        return FMT[self.t]

    @property
    def dtype(self):
        return numpy.dtype(self.t)

    @property
    def real(self):
        return self

    @property
    def imag(self):
        return SymFP(fpval(0.0, self.fmt), self.t)

    def _co(self, o):
        if isinstance(o, SymFP):
            if o.t is not self.t:
                # NumPy promotes to the wider type
                w = self.t if FMT[self.t][1] >= FMT[o.t][1] else o.t
                return _cast(self, w).e, _cast(o, w).e, w
            return self.e, o.e, self.t
        if isinstance(o, (numpy.floating,)):
            if type(o) is not self.t:
                w = self.t if FMT[self.t][1] >= FMT[type(o)][1] else type(o)
                return _cast(self, w).e, fpval(o, FMT[w]), w
            return self.e, fpval(o, self.fmt), self.t
        if isinstance(o, (int, float)) and not isinstance(o, bool):
            # NEP 50: a Python scalar is weak - it is converted to the NumPy scalar's type
            return self.e, fpval(o, self.fmt), self.t
        if isinstance(o, SymInt):
            raise Unsupported("SymFP op SymInt")
        return None

    def _cmp(self, o, f):
        c = self._co(o)
        if c is None:
            return NotImplemented
        return SymBool(f(c[0], c[1]))

    def __lt__(self, o):
        return self._cmp(o, z3.fpLT)

    def __le__(self, o):
        return self._cmp(o, z3.fpLEQ)

    def __gt__(self, o):
        return self._cmp(o, z3.fpGT)

    def __ge__(self, o):
        return self._cmp(o, z3.fpGEQ)

    def __eq__(self, o):
        return self._cmp(o, z3.fpEQ)

    def __ne__(self, o):
        return self._cmp(o, lambda a, b: z3.Not(z3.fpEQ(a, b)))

    def _ar(self, o, f, swap=False):
        c = self._co(o)
        if c is None:
            return NotImplemented
        a, b, t = c
        if swap:
            a, b = b, a
        r = f(RNE, a, b)
        e = Engine.cur
        if e is not None and e.oplog is not None:
            e.oplog.append((f.__name__, a, b, r, t))
        return SymFP(r, t)

    def reference(self, *a, **kw):
        # Expr.reference(...) only names a value for the printers
        return self

    def __add__(self, o):
        return self._ar(o, z3.fpAdd)

    def __radd__(self, o):
        return self._ar(o, z3.fpAdd, True)

    def __sub__(self, o):
        return self._ar(o, z3.fpSub)

    def __rsub__(self, o):
        return self._ar(o, z3.fpSub, True)

    def __mul__(self, o):
        return self._ar(o, z3.fpMul)

    def __rmul__(self, o):
        return self._ar(o, z3.fpMul, True)

    def __truediv__(self, o):
        return self._ar(o, z3.fpDiv)

    def __rtruediv__(self, o):
        return self._ar(o, z3.fpDiv, True)

    def __neg__(self):
        return SymFP(z3.fpNeg(self.e), self.t)

    def __pos__(self):
        return self

    def __abs__(self):
        return SymFP(z3.fpAbs(self.e), self.t)

    def view(self, ut):
        ut = numpy.dtype(ut).type
        if ut is self.t:
            return self
        if ut is not UINT[self.t]:
            raise Unsupported("view(%r) of %r" % (ut, self.t))
        if z3.is_app(self.e) and self.e.decl().kind() == z3.Z3_OP_FPA_TO_FP and self.e.num_args() == 1 and z3.is_bv(self.e.arg(0)):
            # the float was built from a bit pattern: its view is that pattern (NumPy keeps the bits, NaN payloads included)
            return SymBV(self.e.arg(0), ut)
        return SymBV(z3.fpToIEEEBV(self.e), ut)

    def astype(self, t):
        return _cast(self, numpy.dtype(t).type)

    def __bool__(self):
        return eng().branch(z3.Not(z3.fpIsZero(self.e)))

    def __float__(self):
        raise Unsupported("float() of a symbolic float (would concretise)")

    def __int__(self):
        raise Unsupported("int() of a symbolic float: use the shadowed int")

    def __index__(self):
        raise Unsupported("index of symbolic float")


def _cast(x, t):
    if x.t is t:
        return x
    eb, sb = FMT[t]
    return SymFP(z3.fpFPToFP(RNE, x.e, z3.FPSort(eb, sb)), t)


class SymComplex(Sym):
    __slots__ = ("real", "imag", "t")

    def __init__(self, re, im, t):
        self.real, self.imag, self.t = re, im, t

    @property
    def dtype(self):
        return numpy.dtype(self.t)


class SymBV(Sym):
    """a NumPy unsigned integer scalar (wrap-around arithmetic)"""

    __slots__ = ("e", "t")

    def __init__(self, e, t):
        self.e, self.t = e, t

    @property
    def n(self):
        return self.e.size()

    @property
    def dtype(self):
        return numpy.dtype(self.t)

    def _co(self, o):
        if isinstance(o, SymBV):
            if o.t is not self.t:
                raise Unsupported("mixed-width unsigned arithmetic")
            return o.e
        if isinstance(o, numpy.unsignedinteger) and type(o) is self.t:
            return z3.BitVecVal(int(o), self.n)
        if isinstance(o, int) and not isinstance(o, bool):
            if not (0 <= o < (1 << self.n)):
                raise Unsupported("python int out of range of %r (NumPy 2 raises OverflowError)" % self.t)
            return z3.BitVecVal(o, self.n)
        return None

    def _ar(self, o, f, swap=False):
        if isinstance(o, numpy.ndarray):
            if o.dtype != numpy.dtype(self.t) or o.ndim != 1:
                raise Unsupported("uint scalar op ndarray of other dtype/rank")
            return SymArray([self._ar(v, f, swap) for v in o], self.t)
        b = self._co(o)
        if b is None:
            return NotImplemented
        a = self.e
        if swap:
            a, b = b, a
        return SymBV(f(a, b), self.t)

    def __add__(self, o):
        return self._ar(o, lambda a, b: a + b)

    __radd__ = __add__

    def __sub__(self, o):
        return self._ar(o, lambda a, b: a - b)

    def __rsub__(self, o):
        return self._ar(o, lambda a, b: a - b, True)

    def __mul__(self, o):
        return self._ar(o, lambda a, b: a * b)

    __rmul__ = __mul__

    def __and__(self, o):
        return self._ar(o, lambda a, b: a & b)

    __rand__ = __and__

    def __or__(self, o):
        return self._ar(o, lambda a, b: a | b)

    __ror__ = __or__

    def __xor__(self, o):
        return self._ar(o, lambda a, b: a ^ b)

    def __invert__(self):
        return SymBV(~self.e, self.t)

    def __lshift__(self, o):
        return self._ar(o, lambda a, b: a << b)

    def __rshift__(self, o):
        return self._ar(o, z3.LShR)

    def __floordiv__(self, o):
        return self._ar(o, z3.UDiv)

    def __mod__(self, o):
        return self._ar(o, z3.URem)

    def _cmp(self, o, f):
        b = self._co(o)
        if b is None:
            return NotImplemented
        return SymBool(f(self.e, b))

    def __lt__(self, o):
        return self._cmp(o, z3.ULT)

    def __le__(self, o):
        return self._cmp(o, z3.ULE)

    def __gt__(self, o):
        return self._cmp(o, z3.UGT)

    def __ge__(self, o):
        return self._cmp(o, z3.UGE)

    def __eq__(self, o):
        return self._cmp(o, lambda a, b: a == b)

    def __ne__(self, o):
        return self._cmp(o, lambda a, b: a != b)

    def view(self, ft):
        ft = numpy.dtype(ft).type
        if ft is self.t:
            return self
        if FLOAT_OF_UINT.get(self.t) is not ft:
            raise Unsupported("view(%r) of %r" % (ft, self.t))
        eb, sb = FMT[ft]
        return SymFP(z3.fpBVToFP(self.e, z3.FPSort(eb, sb)), ft)

    def __bool__(self):
        return eng().branch(self.e != 0)

    def __int__(self):
        raise Unsupported("int() of a symbolic uint: use the shadowed int")

    def __index__(self):
        raise Unsupported("index of symbolic uint")


class SymInt(Sym):
    """a Python int, backed by a signed bit-vector of engine width W; every operation records the
    no-overflow side condition that makes the unbounded-integer reading valid."""

    __slots__ = ("e",)

    def __init__(self, e):
        self.e = e

    def _co(self, o):
        W = eng().W
        if isinstance(o, SymInt):
            return o.e
        if isinstance(o, bool):
            return z3.BitVecVal(int(o), W)
        if isinstance(o, (int, numpy.integer)):
            o = int(o)
            if not (-(1 << (W - 2)) <= o < (1 << (W - 2))):
                raise Unsupported("int constant does not fit the engine width")
            return z3.BitVecVal(o, W)
        if isinstance(o, SymBV):
            return z3.ZeroExt(W - o.n, o.e)
        return None

    def _ar(self, o, f, guards, swap=False):
        b = self._co(o)
        if b is None:
            return NotImplemented
        a = self.e
        if swap:
            a, b = b, a
        for g in guards:
            eng().side.append(("no-overflow", g(a, b)))
        return SymInt(f(a, b))

    def __add__(self, o):
        return self._ar(o, lambda a, b: a + b, [lambda a, b: z3.BVAddNoOverflow(a, b, True), z3.BVAddNoUnderflow])

    def __radd__(self, o):
        return self.__add__(o)

    def __sub__(self, o):
        return self._ar(o, lambda a, b: a - b, [z3.BVSubNoOverflow, lambda a, b: z3.BVSubNoUnderflow(a, b, True)])

    def __rsub__(self, o):
        return self._ar(o, lambda a, b: a - b, [z3.BVSubNoOverflow, lambda a, b: z3.BVSubNoUnderflow(a, b, True)], True)

    def __mul__(self, o):
        if isinstance(o, (int, numpy.integer)) and not isinstance(o, bool):
            o = int(o)
            if o in (1, -1):
                return self if o == 1 else -self
            if o != 0 and abs(o) & (abs(o) - 1) == 0:
                # a power of two: a constant shift (cheap at any width), then the sign
                r = self << (abs(o).bit_length() - 1)
                return r if o > 0 else -r
        return self._ar(o, lambda a, b: a * b, [lambda a, b: z3.BVMulNoOverflow(a, b, True), z3.BVMulNoUnderflow])

    def __rmul__(self, o):
        return self.__mul__(o)

    def __neg__(self):
        eng().side.append(("no-overflow", z3.BVSNegNoOverflow(self.e)))
        return SymInt(-self.e)

    def __abs__(self):
        eng().side.append(("no-overflow", z3.BVSNegNoOverflow(self.e)))
        return SymInt(z3.If(self.e < 0, -self.e, self.e))

    def __floordiv__(self, o):
        # Python floor division (round towards -inf); divisor must be non-zero (a side condition)
        b = self._co(o)
        if b is None:
            return NotImplemented
        a = self.e
        if eng().branch(b == 0):
            raise ZeroDivisionError("integer division or modulo by zero")
        q = a / b  # bvsdiv truncates
        r = z3.SRem(a, b)
        adj = z3.And(r != 0, (r < 0) != (b < 0))
        return SymInt(z3.If(adj, q - 1, q))

    def __mod__(self, o):
        b = self._co(o)
        if b is None:
            return NotImplemented
        a = self.e
        if eng().branch(b == 0):
            raise ZeroDivisionError("integer division or modulo by zero")
        r = z3.SRem(a, b)
        adj = z3.And(r != 0, (r < 0) != (b < 0))
        return SymInt(z3.If(adj, r + b, r))

    def __rfloordiv__(self, o):
        return SymInt(self._co(o)).__floordiv__(self)

    def __truediv__(self, o):
        b = self._co(o)
        if b is None:
            return NotImplemented
        if eng().branch(b == 0):
            raise ZeroDivisionError("division by zero")
        return SymQuot(self.e, b)

    def __rtruediv__(self, o):
        return SymInt(self._co(o)).__truediv__(self)

    def __lshift__(self, o):
        if not isinstance(o, int):
            raise Unsupported("symbolic shift amount")
        W = eng().W
        # no bits lost: arithmetic shift back recovers the operand
        r = self.e << o
        eng().side.append(("no-overflow", (r >> o) == self.e))
        return SymInt(r)

    def __rshift__(self, o):
        if not isinstance(o, int):
            raise Unsupported("symbolic shift amount")
        return SymInt(self.e >> o)

    def __and__(self, o):
        b = self._co(o)
        return SymInt(self.e & b)

    __rand__ = __and__

    def __or__(self, o):
        b = self._co(o)
        return SymInt(self.e | b)

    __ror__ = __or__

    def _cmp(self, o, f, big=None):
        if isinstance(o, int) and not isinstance(o, bool) and big is not None:
            W = eng().W
            if o >= (1 << (W - 2)):
                return big[0]  # every value of the backing vector is below such a constant
            if o < -(1 << (W - 2)):
                return big[1]
        b = self._co(o)
        if b is None:
            return NotImplemented
        return SymBool(f(self.e, b))

    def __lt__(self, o):
        return self._cmp(o, lambda a, b: a < b, (True, False))

    def __le__(self, o):
        return self._cmp(o, lambda a, b: a <= b, (True, False))

    def __gt__(self, o):
        return self._cmp(o, lambda a, b: a > b, (False, True))

    def __ge__(self, o):
        return self._cmp(o, lambda a, b: a >= b, (False, True))

    def __eq__(self, o):
        return self._cmp(o, lambda a, b: a == b, (False, False))

    def __ne__(self, o):
        return self._cmp(o, lambda a, b: a != b, (True, True))

    def bit_length(self):
        W = eng().W
        a = z3.If(self.e < 0, -self.e, self.e)
        r = z3.BitVecVal(0, W)
        for i in range(W - 1):
            r = z3.If(z3.Extract(i, i, a) == 1, z3.BitVecVal(i + 1, W), r)
        return SymInt(r)

    def __bool__(self):
        return eng().branch(self.e != 0)

    def __index__(self):
        raise Unsupported("a symbolic int used as an index / C integer (would concretise)")

    def __int__(self):
        raise Unsupported("int() of a symbolic int: use the shadowed int")

    def __float__(self):
        raise Unsupported("float() of a symbolic int")


class SymQuot(Sym):
    """float(a)/float(b) of two Python ints (a true division).  Only int() of it is modelled:
    int(a / b) = trunc(RN(a/b)); for a >= 0, b > 0 that is floor(a/b) or floor(a/b)+1 (when the quotient
    rounds up to an integer) - modelled as a fresh value constrained to those two (sound over-approximation)."""

    __slots__ = ("a", "b")

    def __init__(self, a, b):
        self.a, self.b = a, b

    def to_int(self):
        e = eng()
        if not e.branch(z3.And(self.a >= 0, self.b > 0)):
            raise Unsupported("int(a/b) with negative operands")
        q = z3.BitVec(e.fresh_name("quot"), e.W)
        fl = self.a / self.b  # bvsdiv = floor for non-negative operands
        e.assume_fact(z3.Or(q == fl, z3.And(q == fl + 1, z3.SRem(self.a, self.b) != 0)))
        return SymInt(q)


class SymArray(Sym):
    """a 1-D NumPy array of symbolic scalars of one type"""

    __slots__ = ("items", "t")

    def __init__(self, items, t):
        self.items, self.t = list(items), t

    @property
    def size(self):
        return len(self.items)

    @property
    def shape(self):
        return (len(self.items),)

    @property
    def dtype(self):
        return numpy.dtype(self.t)

    def __len__(self):
        return len(self.items)

    def __iter__(self):
        return iter(self.items)

    def __getitem__(self, i):
        if isinstance(i, slice):
            return SymArray(self.items[i], self.t)
        if isinstance(i, int):
            return self.items[i]
        raise Unsupported("symbolic array index")

    def __setitem__(self, i, v):
        if not isinstance(i, int):
            raise Unsupported("symbolic array index")
        self.items[i] = _coerce_scalar(v, self.t)

    def _map(self, f):
        out = [f(x) for x in self.items]
        t = out[0].t if out else self.t
        return SymArray(out, t)

    def __neg__(self):
        return self._map(lambda x: -x)

    def __add__(self, o):
        return self._map(lambda x: x + o)

    def __radd__(self, o):
        return self._map(lambda x: o + x)

    def __sub__(self, o):
        return self._map(lambda x: x - o)

    def view(self, t):
        t = _unwrap_dtype(t)
        return self._map(lambda x: x.view(t))

    def __bool__(self):
        raise Unsupported("truth value of an array")


def _coerce_scalar(v, t):
    if isinstance(v, Sym):
        if getattr(v, "t", None) is t:
            return v
        if isinstance(v, SymFP) and t in FMT:
            return _cast(v, t)
        if isinstance(v, SymInt) and t in FLOAT_OF_UINT:
            n = numpy.dtype(t).itemsize * 8
            if eng().branch(z3.Or(v.e < 0, v.e >= z3.BitVecVal(1 << n, eng().W))):
                raise OverflowError("Python integer out of bounds for %s" % t.__name__)
            return SymBV(z3.Extract(n - 1, 0, v.e), t)
        raise Unsupported("array element %r into %r" % (type(v), t))
    if t in FMT:
        return SymFP(fpval(v, FMT[t]), t)
    if t in FLOAT_OF_UINT:
        n = numpy.dtype(t).itemsize * 8
        return SymBV(z3.BitVecVal(int(v), n), t)
    raise Unsupported("array of %r" % t)


class SymDType:
    """stands for a NumPy scalar type object (numpy.float32 ...) that can be CALLED on symbolic values;
    hashes and compares equal to the real type so dict / set lookups behave identically"""

    def __init__(self, t):
        self.t = t
        self.__name__ = t.__name__
        self.dtype = numpy.dtype(t)  # lets real NumPy functions accept this object where a dtype is expected

    def __hash__(self):
        return hash(self.t)

    def __eq__(self, o):
        return o is self.t or (isinstance(o, SymDType) and o.t is self.t)

    def __ne__(self, o):
        return not self.__eq__(o)

    def __call__(self, v=0):
        if isinstance(v, SymFP):
            return _cast(v, self.t)
        if isinstance(v, SymInt):
            # NumPy converts a Python int to the float type with round-to-nearest-even
            return SymFP(z3.fpSignedToFP(RNE, v.e, z3.FPSort(*FMT[self.t])), self.t)
        if isinstance(v, Sym):
            raise Unsupported("%s(%s)" % (self.t.__name__, type(v).__name__))
        with numpy.errstate(all="ignore"):
            return self.t(v)


def _unwrap_dtype(t):
    if isinstance(t, SymDType):
        return t.t
    if isinstance(t, numpy.dtype):
        return t.type
    return t


class SymRange:
    """range(...) with symbolic bounds: iteration follows Python's definition, forking on each test"""

    def __init__(self, *a):
        if len(a) == 1:
            self.start, self.stop, self.step = 0, a[0], 1
        elif len(a) == 2:
            self.start, self.stop, self.step = a[0], a[1], 1
        else:
            self.start, self.stop, self.step = a
        st = self.step
        if isinstance(st, SymInt):
            if eng().branch(st.e == 0):
                raise ValueError("range() arg 3 must not be zero")

    def __iter__(self):
        i = self.start
        n = 0
        pos = self.step > 0
        if not isinstance(pos, bool):
            pos = bool(pos)
        while True:
            c = (i < self.stop) if pos else (i > self.stop)
            if not (bool(c)):
                return
            yield i
            i = i + self.step
            n += 1
            if n > 4096:
                raise Unsupported("symbolic range longer than 4096")


def _range(*a):
    if any(isinstance(x, Sym) for x in a):
        return SymRange(*a)
    return builtins.range(*a)


def _len(x):
    if isinstance(x, SymArray):
        return len(x.items)
    return builtins.len(x)


# ---------------------------------------------------------------------------------------------
# shadows
# ---------------------------------------------------------------------------------------------
def _unshadow(c):
    return {"float": builtins.float, "int": builtins.int, "bool": builtins.bool}.get(getattr(c, "__name__", None), c) if type(c).__name__ == "Meta" else c


def _isinstance(obj, cls):
    if isinstance(obj, Sym):
        classes = cls if isinstance(cls, tuple) else (cls,)
        for c in classes:
            c = _unshadow(c)
            if isinstance(c, tuple):
                if _isinstance(obj, c):
                    return True
                continue
            if isinstance(obj, SymFP) and isinstance(c, type) and issubclass(obj.t, c):
                return True
            if isinstance(obj, SymComplex) and isinstance(c, type) and issubclass(obj.t, c):
                return True
            if isinstance(obj, SymBV) and isinstance(c, type) and issubclass(obj.t, c):
                return True
            if isinstance(obj, SymInt) and c is int:
                return True
            if isinstance(obj, SymBool) and c in (bool, numpy.bool_):
                return True
        return False
    return builtins.isinstance(obj, cls)


def _int(x=0, *a):
    if isinstance(x, SymInt):
        return x
    if isinstance(x, SymBV):
        c = z3.simplify(x.e)
        if z3.is_bv_value(c):
            return c.as_long()  # constant folding: the operand does not depend on any input
        return SymInt(z3.ZeroExt(eng().W - x.n, x.e))
    if isinstance(x, SymBool):
        W = eng().W
        return SymInt(z3.If(x.e, z3.BitVecVal(1, W), z3.BitVecVal(0, W)))
    if isinstance(x, SymQuot):
        return x.to_int()
    if hasattr(x, "__symint__"):
        return x.__symint__()
    if isinstance(x, Sym):
        raise Unsupported("int(%s)" % type(x).__name__)
    return builtins.int(x, *a)


def _abs(x):
    if isinstance(x, Sym):
        return x.__abs__()
    return builtins.abs(x)


def _type(x, *a):
    if a:
        return builtins.type(x, *a)
    if isinstance(x, (SymFP, SymBV, SymComplex)):
        return x.t
    if isinstance(x, SymInt):
        return int
    if isinstance(x, SymBool):
        return bool
    return builtins.type(x)


def _bool(x=False):
    if isinstance(x, Sym):
        return x.__bool__()
    return builtins.bool(x)


def _float(x=0.0):
    if isinstance(x, Sym):
        raise Unsupported("float(%s)" % type(x).__name__)
    return builtins.float(x)


def type_shadow(real, call):
    """a stand-in for a builtin type name (float, bool, int): calling it dispatches to `call`; isinstance /
    issubclass against it behave like the real type (so `isinstance(x, (int, float))` in the code still works)"""

    class Meta(type):
        def __instancecheck__(cls, obj):
            return builtins.isinstance(obj, real)

        def __subclasscheck__(cls, sub):
            return builtins.issubclass(sub, real)

        def __call__(cls, *a, **kw):
            return call(*a, **kw)

        def __eq__(cls, o):
            return o is real or o is cls

        def __hash__(cls):
            return hash(real)

        def __repr__(cls):
            return repr(real)

    return Meta(real.__name__, (), {"__doc__": "shadow of %s" % real.__name__, "__name__": real.__name__})


class _NumpyShadow:
    """module proxy: attributes are the real numpy's, except the functions modelled below"""

    def __init__(self, extra=None):
        self._extra = extra or {}

    def __getattr__(self, name):
        if name in self._extra:
            return self._extra[name]
        m = _NP_MODELS.get(name)
        real = getattr(numpy, name)
        if m is None:
            if name == "finfo":
                return lambda t: numpy.finfo(_unwrap_dtype(t))
            return real

        def f(*args, **kw):
            if _has_sym(args) or _has_sym(tuple(kw.values())):
                return m(*args, **kw)
            args = tuple(_unwrap_dtype(a) if isinstance(a, SymDType) else a for a in args)
            kw = {k: (_unwrap_dtype(v) if isinstance(v, SymDType) else v) for k, v in kw.items()}
            return real(*args, **kw)

        f.__name__ = name
        return f


def _has_sym(args):
    for a in args:
        if isinstance(a, Sym):
            return True
        if isinstance(a, (list, tuple)) and _has_sym(a):
            return True
    return False


def _np_isfinite(x):
    return SymBool(z3.Not(z3.Or(z3.fpIsInf(x.e), z3.fpIsNaN(x.e))))


def _np_isinf(x):
    return SymBool(z3.fpIsInf(x.e))


def _np_isnan(x):
    return SymBool(z3.fpIsNaN(x.e))


def _np_isposinf(x):
    return SymBool(z3.And(z3.fpIsInf(x.e), z3.fpIsPositive(x.e)))


def _np_isneginf(x):
    return SymBool(z3.And(z3.fpIsInf(x.e), z3.fpIsNegative(x.e)))


def _np_signbit(x):
    return SymBool(z3.fpIsNegative(x.e) if False else z3.Extract(sum(x.fmt) - 1, sum(x.fmt) - 1, z3.fpToIEEEBV(x.e)) == 1)


def fp_bits(e):
    """the bit pattern of an FP term; for a float assembled from a pattern, that pattern (keeps constants foldable)"""
    if z3.is_app(e) and e.decl().kind() == z3.Z3_OP_FPA_TO_FP and e.num_args() == 1 and z3.is_bv(e.arg(0)):
        return e.arg(0)
    return z3.fpToIEEEBV(e)


def frexp_mantissa(x):
    """numpy.frexp(x)[0]: x scaled into [0.5, 1) (same sign and significand); zero, inf, nan unchanged"""
    eb, sb = x.fmt
    n = eb + sb
    bits = fp_bits(x.e)
    sign = z3.Extract(n - 1, n - 1, bits)
    ef = z3.Extract(n - 2, sb - 1, bits)
    fr = z3.Extract(sb - 2, 0, bits)
    bias = (1 << (eb - 1)) - 1
    half = z3.BitVecVal(bias - 1, eb)
    normal = z3.Concat(sign, half, fr)
    # subnormal: shift the leading one out of the fraction field
    sub = z3.Concat(sign, half, fr)
    for i in range(sb - 1):  # leading one at bit i: shift left by (sb - 1 - i)
        sub = z3.If(z3.Extract(i, i, fr) == 1, z3.Concat(sign, half, fr << (sb - 1 - i)), sub)
    special = z3.Or(ef == (1 << eb) - 1, z3.And(ef == 0, fr == 0))
    m = z3.If(special, bits, z3.If(ef == 0, sub, normal))
    return SymFP(z3.fpBVToFP(z3.simplify(m), z3.FPSort(eb, sb)), x.t)


def frexp_exponent(x):
    """numpy.frexp(x)[1] for finite non-zero x as a SymInt: x = m * 2**e with 0.5 <= |m| < 1.
    zero, inf, nan -> 0 (what numpy returns)."""
    W = eng().W
    eb, sb = x.fmt
    bits = fp_bits(x.e)
    ef = z3.Extract(eb + sb - 2, sb - 1, bits)
    fr = z3.Extract(sb - 2, 0, bits)
    bias = (1 << (eb - 1)) - 1
    efi = z3.ZeroExt(W - eb, ef)
    # bit length of the fraction field (subnormals)
    bl = z3.BitVecVal(0, W)
    for i in range(sb - 1):
        bl = z3.If(z3.Extract(i, i, fr) == 1, z3.BitVecVal(i + 1, W), bl)
    normal_e = efi - z3.BitVecVal(bias - 1, W)
    sub_e = bl + z3.BitVecVal((1 - bias) - (sb - 1), W)
    special = z3.Or(ef == (1 << eb) - 1, z3.And(ef == 0, fr == 0))
    r = z3.simplify(z3.If(special, z3.BitVecVal(0, W), z3.If(ef == 0, sub_e, normal_e)))
    if z3.is_bv_value(r):
        return r.as_signed_long()  # constant folding (the exponent field of the operand is concrete)
    return SymInt(r)


class _FrexpResult:
    def __init__(self, x):
        self.x = x

    def __getitem__(self, i):
        if i == 1:
            return frexp_exponent(self.x)
        raise Unsupported("frexp mantissa")

    def __iter__(self):
        return iter((frexp_mantissa(self.x), frexp_exponent(self.x)))


def _np_frexp(x):
    return _FrexpResult(x)


def ldexp_pow2(t, k):
    """numpy.ldexp(t(1), k) for a SymInt k: the float 2**k of type t (0 below range, inf above)"""
    eb, sb = FMT[t]
    W = eng().W
    bias = (1 << (eb - 1)) - 1
    emin = 1 - bias
    emax = bias
    n = eb + sb
    ke = k.e
    # normal: exponent field k + bias, fraction 0
    efield = z3.Extract(eb - 1, 0, ke + z3.BitVecVal(bias, W))
    normal = z3.Concat(z3.BitVecVal(0, 1), efield, z3.BitVecVal(0, sb - 1))
    # subnormal: bit (k - (emin - (sb-1))) of the fraction
    sh = ke - z3.BitVecVal(emin - (sb - 1), W)
    sub = z3.BitVecVal(1, n) << z3.Extract(n - 1, 0, sh) if n <= W else None
    inf = z3.BitVecVal(((1 << eb) - 1) << (sb - 1), n)
    zero = z3.BitVecVal(0, n)
    bits = z3.If(ke > emax, inf, z3.If(ke >= emin, normal, z3.If(ke >= emin - (sb - 1), sub, zero)))
    return SymFP(z3.fpBVToFP(bits, z3.FPSort(eb, sb)), t)


def encode_rne(sign, m, q, fmt, W):
    """IEEE bits of (-1)^sign * m * 2^q rounded to nearest-even; m: W-bit vector holding a non-negative integer below
    2^(W-3), q: W-bit signed vector.  Pure bit-vector arithmetic (no FP multiplier in the SAT problem)."""
    eb, sb = fmt
    n = eb + sb
    bias = (1 << (eb - 1)) - 1
    emin = 1 - bias
    BV = lambda v: z3.BitVecVal(v, W)  # noqa
    # bit length of m
    bl = BV(0)
    for i in range(W - 2):
        bl = z3.If(z3.Extract(i, i, m) == 1, BV(i + 1), bl)
    e1 = q + bl  # value in [2^(e1-1), 2^e1)
    # target quantum exponent: normal -> e1 - sb ; subnormal -> emin - (sb-1)
    qt = z3.If(e1 - 1 >= emin, e1 - sb, BV(emin - (sb - 1)))
    sh = qt - q  # > 0: drop `sh` low bits with rounding ; <= 0: shift left (exact)
    big = sh >= W - 2
    shc = z3.If(sh > 0, z3.If(big, BV(W - 2), sh), BV(0))
    quo = z3.LShR(m, shc)
    rem = m - (quo << shc)
    half = z3.If(shc > 0, BV(1) << (shc - 1), BV(0))
    up = z3.And(shc > 0, z3.Or(z3.UGT(rem, half), z3.And(rem == half, z3.Extract(0, 0, quo) == 1)))
    sig = z3.If(sh > 0, quo + z3.If(up, BV(1), BV(0)), m << (0 - sh))
    sig = z3.If(big, BV(0), sig)
    # sig is the integer significand at quantum 2^qt, sig <= 2^sb (a carry to 2^sb moves to the next binade)
    carry = sig == (1 << sb)
    sig2 = z3.If(carry, BV(1 << (sb - 1)), sig)
    qt2 = z3.If(carry, qt + 1, qt)
    is_norm = z3.UGE(sig2, BV(1 << (sb - 1)))
    expfield = z3.If(is_norm, qt2 + (sb - 1) + bias, BV(0))
    frac = z3.Extract(sb - 2, 0, sig2)
    inf = expfield >= (1 << eb) - 1
    bits_mag = z3.If(inf, z3.BitVecVal(((1 << eb) - 1) << (sb - 1), n - 1), z3.Concat(z3.Extract(eb - 1, 0, expfield), frac))
    bits_mag = z3.If(m == 0, z3.BitVecVal(0, n - 1), bits_mag)
    return z3.Concat(sign, bits_mag)


def decode_fields(x):
    """(sign bit, integer significand m, quantum exponent q) of a finite float: value = (-1)^sign * m * 2^q"""
    eb, sb = x.fmt
    W = eng().W
    bits = z3.fpToIEEEBV(x.e)
    n = eb + sb
    sign = z3.Extract(n - 1, n - 1, bits)
    ef = z3.ZeroExt(W - eb, z3.Extract(n - 2, sb - 1, bits))
    fr = z3.ZeroExt(W - (sb - 1), z3.Extract(sb - 2, 0, bits))
    bias = (1 << (eb - 1)) - 1
    m = z3.If(ef == 0, fr, fr | z3.BitVecVal(1 << (sb - 1), W))
    q = z3.If(ef == 0, z3.BitVecVal(1 - bias - (sb - 1), W), ef - z3.BitVecVal(bias + sb - 1, W))
    return sign, m, q


def ldexp_general(x, k):
    """numpy.ldexp(x, k) for finite x: the value x * 2**k rounded once to nearest-even (inf/nan/zero pass through)"""
    eb, sb = x.fmt
    W = eng().W
    sign, m, q = decode_fields(x)
    ke = k.e if isinstance(k, SymInt) else z3.BitVecVal(int(k), W)
    if isinstance(k, SymInt):
        eng().side.append(("ldexp-exponent-range", z3.And(ke > -(1 << 20), ke < (1 << 20))))
    bits = encode_rne(sign, m, q + ke, x.fmt, W)
    special = z3.Or(z3.fpIsInf(x.e), z3.fpIsNaN(x.e))
    r = z3.If(special, x.e, z3.fpBVToFP(bits, z3.FPSort(eb, sb)))
    return SymFP(r, x.t)


def _np_ldexp(x, k):
    if isinstance(x, numpy.floating) and float(x) == 1.0 and isinstance(k, SymInt):
        return ldexp_pow2(type(x), k)
    if isinstance(x, SymFP) and isinstance(k, (SymInt, int)):
        return ldexp_general(x, k)
    raise Unsupported("ldexp(%r, %r) is not modelled" % (type(x), type(k)))


def _np_array(obj, dtype=None, **kw):
    t = _unwrap_dtype(dtype)
    if t is None:
        raise Unsupported("numpy.array of symbolic values without dtype")
    return SymArray([_coerce_scalar(v, t) for v in obj], t)


def _np_concatenate(parts, **kw):
    parts = list(parts)
    t = None
    for p in parts:
        if isinstance(p, SymArray):
            t = p.t
    items = []
    for p in parts:
        if isinstance(p, SymArray):
            items.extend(p.items)
        else:
            items.extend(_coerce_scalar(v, t) for v in p)
    return SymArray(items, t)


class UniqueOf(SymArray):
    """numpy.unique(a): recorded, not computed - contract (assumed on NumPy): for a non-decreasing `a`
    (with +0 == -0) the result is `a` with repeated neighbours removed."""

    __slots__ = ()


def _np_unique(a, **kw):
    return UniqueOf(a.items, a.t)


_NP_MODELS = {
    "array": _np_array,
    "concatenate": _np_concatenate,
    "unique": _np_unique,
    "isfinite": _np_isfinite,
    "isinf": _np_isinf,
    "isnan": _np_isnan,
    "isposinf": _np_isposinf,
    "isneginf": _np_isneginf,
    "signbit": _np_signbit,
    "frexp": _np_frexp,
    "ldexp": _np_ldexp,
}

MODELS_DOC = [
    "x.view(uintN) = fp.to_ieee_bv(x); u.view(floatN) = to_fp(u)",
    "numpy.isfinite/isinf/isnan = fp.isInfinite/isNaN",
    "numpy.frexp(x)[1] = exponent-field - bias + 1 (normal), bit_length(fraction) + emin - (p-1) (subnormal), 0 for 0/inf/nan",
    "numpy.ldexp(1, k) = 2**k in the format (0 below the subnormal range, inf above emax)",
    "NumPy scalar arithmetic/comparison = SMT-LIB FP with RNE; python scalar operands are weak (NEP 50)",
    "int(uintN scalar) = zero extension; Python int = signed bit-vector of width W with no-overflow side obligations",
    "isinstance/type/abs/int/bool/float shadows: identical to the builtins on concrete arguments",
]


def reglobal(module, extra=None, numpy_extra=None, int_shadow=True):
    """Shadow namespace for `module`: every function defined there is rebuilt from its own code object."""
    g = dict(module.__dict__)
    g["isinstance"] = _isinstance
    if int_shadow:
        g["int"] = type_shadow(builtins.int, _int)
    g["abs"] = _abs
    g["type"] = _type
    g["bool"] = type_shadow(builtins.bool, _bool)
    g["float"] = type_shadow(builtins.float, _float)
    g["range"] = _range
    g["len"] = _len
    if "numpy" in g:
        g["numpy"] = _NumpyShadow(numpy_extra)
    if "np" in g and g["np"] is numpy:
        g["np"] = g["numpy"]
    for name, obj in list(module.__dict__.items()):
        if isinstance(obj, types.FunctionType) and obj.__module__ == module.__name__:
            f = types.FunctionType(obj.__code__, g, obj.__name__, obj.__defaults__, obj.__closure__)
            f.__kwdefaults__ = obj.__kwdefaults__
            f.__dict__.update(obj.__dict__)
            g[name] = f
    if extra:
        g.update(extra)
    return g


# ---------------------------------------------------------------------------------------------
# path exploration
# ---------------------------------------------------------------------------------------------
class PathResult:
    def __init__(self, decisions, pre, pc, side, result, exc, oplog=None):
        self.decisions, self.pre, self.pc, self.side, self.result, self.exc = decisions, pre, pc, side, result, exc
        self.oplog = oplog

    def sig(self):
        return "".join("T" if d else "F" for d in self.decisions) or "-"


def explore(run, int_width=80, max_paths=5000, oplog=False):
    """`run(engine)` builds the symbolic arguments (may call engine.assume for the precondition) and calls the
    function; returns its result.  Yields a PathResult per feasible path."""
    work = [[]]
    out = []
    while work:
        prefix = work.pop()
        e = Engine(prefix, int_width=int_width)
        if oplog:
            e.oplog = []
        Engine.cur = e
        res, exc = None, None
        try:
            res = run(e)
        except Infeasible:
            Engine.cur = None
            continue
        except Unsupported:
            Engine.cur = None
            raise
        except Exception as ex:  # the real code raised on this path
            msg = str(ex)
            if "vf.symrun" in msg or "Sym" in msg and isinstance(ex, (TypeError, AttributeError)):
                Engine.cur = None
                raise Unsupported("engine object leaked into an unmodelled operation: %s: %s" % (type(ex).__name__, msg))
            exc = ex
        finally:
            Engine.cur = None
        work.extend(e.pending)
        out.append(PathResult(e.decisions, list(e.assumptions), list(e.pc), list(e.side), res, exc, e.oplog))
        if len(out) > max_paths:
            raise Unsupported("path explosion")
    return out


def vc(path, goal, extra_hyp=()):
    """SMT script (assertions only) for: pre AND pc AND hyp AND NOT goal   (unsat = discharged)"""
    s = z3.Solver()
    for c in path.pre:
        s.add(c)
    for c in path.pc:
        s.add(c)
    for c in extra_hyp:
        s.add(c)
    s.add(z3.Not(goal))
    return s.to_smt2().replace("(check-sat)", "")


def side_vc(path):
    """no-overflow / non-zero-divisor side conditions of the int model on this path"""
    if not path.side:
        return None
    return vc(path, z3.And([c for _, c in path.side]))
