"""Dispatcher: ./check <Cxx> [--tier quick|thorough] [--replay file]"""
import argparse
import importlib
import os
import sys
import traceback


def main():
    ap = argparse.ArgumentParser()
    ap.add_argument("prop")
    ap.add_argument("--tier", default=os.environ.get("VERIF_TIER", "quick"), choices=["quick", "thorough"])
    ap.add_argument("--replay", default=None)
    ap.add_argument("--only", default=None, help="substring filter on obligation ids (development aid; exit code then is not a verdict)")
    a = ap.parse_args()
    try:
        mod = importlib.import_module("vf.contracts." + a.prop)
    except ModuleNotFoundError:
        print("ENGINE-ERROR: no check for %s" % a.prop)
        return 3
    try:
        if a.replay:
            return mod.replay(a.replay)
        return mod.main(a.tier, only=a.only) if a.only else mod.main(a.tier)
    except SystemExit as e:
        return e.code
    except Exception:
        traceback.print_exc()
        print("ENGINE-ERROR: property=%s checker crashed (not a verdict)" % a.prop)
        return 3


if __name__ == "__main__":
    sys.exit(main())
