"""E1 (mode 4) - traced algorithm DAGs as SMT terms with uninterpreted arithmetic.

`expand(name, dtype)` traces functional_algorithms.algorithms.<name> with the repository's tracer and expands every
non-primitive kind (and every native kind applied to a complex operand) through the package's own definitions.
`Den(fmt).val(expr, env)` translates the loop-free DAG: add/subtract/multiply/divide/sqrt and the real natives
(log, log1p, atan2, exp, sin, cos) are UNINTERPRETED functions on the FP sort; negation, absolute value, comparisons,
select, min/max, logical operations and is_finite are interpreted (IEEE).  Every uninterpreted application is
recorded so that the lemma library can be instantiated on exactly the terms that occur (ground instantiation).
"""
from __future__ import annotations

import types
import warnings

import numpy
import z3

PRIM = set("add subtract multiply divide negative positive absolute sqrt lt le gt ge eq ne logical_and logical_or logical_not logical_xor select maximum minimum complex real imag is_finite log log1p atan2 exp sin cos expm1".split())
UF_BINARY = ("add", "subtract", "multiply", "divide", "atan2")
UF_UNARY = ("sqrt", "log", "log1p", "exp", "sin", "cos", "expm1")
FMT = {"float32": (8, 24), "float64": (11, 53), "float16": (5, 11)}


def make_modifier():
    import functional_algorithms as fa
    from functional_algorithms import algorithms

    def modifier(expr):
        if expr.kind in {"symbol", "constant", "apply"}:
            return expr
        cx = False
        if expr.kind not in ("complex", "real", "imag", "select", "eq", "ne"):
            cx = any(isinstance(o, fa.Expr) and o.kind != "list" and o.is_complex for o in expr.operands)
        if expr.kind in PRIM and not cx:
            return expr
        func = getattr(algorithms, expr.kind, None)
        if func is None:
            raise NotImplementedError("no definition of %s in algorithms" % expr.kind)
        result = expr.context.call(func, expr.operands)
        if result.key != expr.key:
            return result.rewrite(M, deep_first=True)
        return expr

    M = types.SimpleNamespace(__rewrite_modifier__=modifier)
    return M


def expand(name, dtypes, do_rewrite=True):
    """the expanded (and algebraically rewritten, as the test pipeline does) graph of algorithms.<name>"""
    import functional_algorithms as fa
    from functional_algorithms import algorithms, rewrite

    with warnings.catch_warnings():
        warnings.simplefilter("ignore")
        ctx = fa.Context(paths=[algorithms])
        g = ctx.trace(getattr(algorithms, name), *dtypes)
        g = g.rewrite(make_modifier(), rewrite) if do_rewrite else g.rewrite(make_modifier())
    return g


class Den:
    def __init__(self, tname):
        self.tname = tname
        self.eb, self.sb = FMT[tname]
        self.S = z3.FPSort(self.eb, self.sb)
        self.t = getattr(numpy, tname)
        self.uf = {}
        self.apps = []  # (opname, args tuple, result)
        self.app_ids = set()

    # ---- sign-magnitude decomposition of the IEEE operations (each decomposition is a bit-precise lemma, see
    #      signmag_lemmas): the sign logic is interpreted exactly, only the magnitude functions are uninterpreted, so the
    #      abstraction commutes with negation of operands BY CONSTRUCTION
    signmag = True

    def _neg_bit(self, a):
        return z3.Extract(self.eb + self.sb - 1, self.eb + self.sb - 1, z3.fpToIEEEBV(a)) == 1 if False else z3.fpIsNegative(a)

    def _withsign(self, neg, m):
        return z3.If(neg, z3.fpNeg(z3.fpAbs(m)), z3.fpAbs(m))

    def _mag(self, name, m1, m2=None):
        """uninterpreted magnitude function; symmetric ones are applied to a canonical argument order"""
        m1 = self._abs_canon(m1)
        if m2 is None:
            return self.apply("M" + name, m1)
        m2 = self._abs_canon(m2)
        if name in ("add", "mul") and m1.get_id() > m2.get_id():
            m1, m2 = m2, m1
        return self.apply("M" + name, m1, m2)

    def _abs_canon(self, m):
        """|−t| and |t| are the same magnitude: strip negations under an absolute value so that equal magnitudes are
        the same term (congruence then needs no FP reasoning)"""
        if z3.is_app(m) and m.decl().kind() == z3.Z3_OP_FPA_ABS:
            t = m.arg(0)
            while z3.is_app(t) and t.decl().kind() in (z3.Z3_OP_FPA_NEG, z3.Z3_OP_FPA_ABS):
                t = t.arg(0)
            return z3.fpAbs(t)
        return m

    def sm_multiply(self, a, b):
        nan = z3.Or(z3.fpIsNaN(a), z3.fpIsNaN(b))
        m = self._mag("mul", z3.fpAbs(a), z3.fpAbs(b))
        # zero times anything finite is zero; the product of magnitudes is NaN only for 0 * inf
        zero = z3.And(z3.Or(z3.fpIsZero(a), z3.fpIsZero(b)), z3.Not(z3.Or(z3.fpIsInf(a), z3.fpIsInf(b))))
        r = z3.If(zero, z3.FPVal(0.0, self.S), m)
        return z3.If(nan, z3.fpNaN(self.S), z3.If(z3.fpIsNaN(r), r, self._withsign(z3.Xor(z3.fpIsNegative(a), z3.fpIsNegative(b)), r)))

    def sm_divide(self, a, b):
        nan = z3.Or(z3.fpIsNaN(a), z3.fpIsNaN(b))
        m = self._mag("div", z3.fpAbs(a), z3.fpAbs(b))
        return z3.If(nan, z3.fpNaN(self.S), z3.If(z3.fpIsNaN(m), m, self._withsign(z3.Xor(z3.fpIsNegative(a), z3.fpIsNegative(b)), m)))

    def sm_add(self, a, b):
        S = self.S
        nan = z3.Or(z3.fpIsNaN(a), z3.fpIsNaN(b))
        sa, sb = z3.fpIsNegative(a), z3.fpIsNegative(b)
        ma, mb = z3.fpAbs(a), z3.fpAbs(b)
        same = sa == sb
        both_zero = z3.And(z3.fpIsZero(a), z3.fpIsZero(b))
        # exact IEEE cases first
        r_same = self._withsign(sa, z3.If(z3.fpIsZero(b), ma, z3.If(z3.fpIsZero(a), mb, self._mag("add", ma, mb))))
        r_opp = z3.If(
            z3.fpGT(ma, mb),
            self._withsign(sa, z3.If(z3.fpIsZero(b), ma, self._mag("sub", ma, mb))),
            z3.If(z3.fpGT(mb, ma), self._withsign(sb, z3.If(z3.fpIsZero(a), mb, self._mag("sub", mb, ma))), z3.If(z3.fpIsInf(a), z3.fpNaN(S), z3.FPVal(0.0, S))),
        )
        r = z3.If(same, z3.If(both_zero, a, r_same), r_opp)
        return z3.If(nan, z3.fpNaN(S), r)

    def sm_subtract(self, a, b):
        return self.sm_add(a, z3.fpNeg(b))

    def sm_atan2(self, y, x):
        # ASSUMED contract of the native: atan2(-y, x) = -atan2(y, x), sign of the result = sign of y (zeros included)
        nan = z3.Or(z3.fpIsNaN(y), z3.fpIsNaN(x))
        return z3.If(nan, z3.fpNaN(self.S), self._withsign(z3.fpIsNegative(y), self.apply("Matan2", z3.fpAbs(y), x)))

    def sm_sin(self, a):
        return z3.If(z3.fpIsNaN(a), a, self._withsign(z3.fpIsNegative(a), self.apply("Msin", z3.fpAbs(a))))

    def sm_cos(self, a):
        return self.apply("Mcos", z3.fpAbs(a))

    def range_axioms(self):
        """sound facts about the magnitude functions on the terms that occur (each is a bit-precise lemma)"""
        out = []
        for name, args, r in self.apps:
            fin = lambda t: z3.Not(z3.Or(z3.fpIsInf(t), z3.fpIsNaN(t)))  # noqa
            if name == "Msub":
                m1, m2 = args
                # m1 > m2 >= 0: the difference is a positive number not above m1 (never zero: gradual underflow); inf - finite = inf
                out.append(z3.Implies(z3.And(z3.fpGT(m1, m2), z3.Not(z3.fpIsNaN(m2))), z3.And(z3.fpGT(r, z3.FPVal(0.0, self.S)), z3.fpLEQ(r, m1))))
            elif name == "Madd":
                m1, m2 = args
                out.append(z3.Implies(z3.And(z3.Not(z3.fpIsNaN(m1)), z3.Not(z3.fpIsNaN(m2))), z3.And(z3.fpGEQ(r, m1), z3.fpGEQ(r, m2), z3.Not(z3.fpIsNaN(r)))))
            elif name == "Mmul":
                m1, m2 = args
                out.append(z3.Implies(z3.And(z3.Not(z3.fpIsNaN(m1)), z3.Not(z3.fpIsNaN(m2)), z3.Not(z3.And(z3.fpIsZero(m1), z3.fpIsInf(m2))), z3.Not(z3.And(z3.fpIsZero(m2), z3.fpIsInf(m1)))), z3.And(z3.Not(z3.fpIsNaN(r)), z3.fpGEQ(r, z3.FPVal(0.0, self.S)))))
            elif name == "Mdiv":
                m1, m2 = args
                ok = z3.And(z3.Not(z3.fpIsNaN(m1)), z3.Not(z3.fpIsNaN(m2)), z3.Not(z3.And(z3.fpIsZero(m1), z3.fpIsZero(m2))), z3.Not(z3.And(z3.fpIsInf(m1), z3.fpIsInf(m2))))
                out.append(z3.Implies(ok, z3.And(z3.Not(z3.fpIsNaN(r)), z3.fpGEQ(r, z3.FPVal(0.0, self.S)))))
            elif name in ("Matan2", "Msin"):
                out.append(z3.Or(z3.fpIsNaN(r), z3.fpGEQ(r, z3.FPVal(0.0, self.S))) if name == "Matan2" else z3.BoolVal(True))
        return out

    def fn(self, name, arity):
        if name not in self.uf:
            self.uf[name] = z3.Function("U_" + name, *([self.S] * (arity + 1)))
        return self.uf[name]

    def apply(self, name, *args):
        r = self.fn(name, len(args))(*args)
        k = (name,) + tuple(a.get_id() for a in args)
        if k not in self.app_ids:
            self.app_ids.add(k)
            self.apps.append((name, args, r))
        return r

    def cval(self, v):
        from vf.symrun import fpval

        return fpval(v, (self.eb, self.sb))

    def named(self, name):
        fi = numpy.finfo(self.t)
        if name in ("posinf", "inf"):
            return z3.fpPlusInfinity(self.S)
        if name == "neginf":
            return z3.fpMinusInfinity(self.S)
        if name in ("nan", "undefined"):
            return z3.fpNaN(self.S)
        return self.cval(dict(largest=fi.max, smallest=fi.smallest_normal, smallest_subnormal=fi.smallest_subnormal, eps=fi.eps, pi=self.t(numpy.pi))[name])

    def val(self, expr, env, memo=None):
        memo = {} if memo is None else memo

        def go(e):
            k = id(e)
            if k not in memo:
                memo[k] = _go(e)
            return memo[k]

        def _go(e):
            kind = e.kind
            if kind == "symbol":
                return env[e.operands[0]]
            if kind == "constant":
                v = e.operands[0]
                if isinstance(v, str):
                    return self.named(v)
                if isinstance(v, (bool, numpy.bool_)):
                    return z3.BoolVal(bool(v))
                if isinstance(v, (complex, numpy.complexfloating)):
                    return (self.cval(v.real), self.cval(v.imag))
                return self.cval(v)
            a = [go(o) for o in e.operands]
            if kind == "complex":
                return (a[0], a[1])
            if kind == "real":
                return a[0][0]
            if kind == "imag":
                return a[0][1]
            if self.signmag and kind in ("add", "subtract", "multiply", "divide", "atan2", "sin", "cos"):
                return getattr(self, "sm_" + kind)(*a)
            if kind in UF_BINARY:
                return self.apply(kind, a[0], a[1])
            if kind in UF_UNARY:
                return self.apply(kind, a[0])
            if kind == "negative":
                return z3.fpNeg(a[0])
            if kind == "positive":
                return a[0]
            if kind == "absolute":
                return z3.fpAbs(a[0])
            if kind in ("lt", "le", "gt", "ge", "eq", "ne"):
                x, y = a
                if z3.is_bool(x):
                    return x == y if kind == "eq" else x != y
                return {"lt": z3.fpLT, "le": z3.fpLEQ, "gt": z3.fpGT, "ge": z3.fpGEQ, "eq": z3.fpEQ, "ne": lambda p, q: z3.Not(z3.fpEQ(p, q))}[kind](x, y)
            if kind == "logical_and":
                return z3.And(a[0], a[1])
            if kind == "logical_or":
                return z3.Or(a[0], a[1])
            if kind == "logical_xor":
                return z3.Xor(a[0], a[1])
            if kind == "logical_not":
                return z3.Not(a[0])
            if kind == "select":
                if isinstance(a[1], tuple):
                    return (z3.If(a[0], a[1][0], a[2][0]), z3.If(a[0], a[1][1], a[2][1]))
                return z3.If(a[0], a[1], a[2])
            if kind == "maximum":
                # NumPy/Python targets print the builtin max(a, b): b if b > a else a
                return z3.If(z3.fpGT(a[1], a[0]), a[1], a[0])
            if kind == "minimum":
                return z3.If(z3.fpLT(a[1], a[0]), a[1], a[0])
            if kind == "is_finite":
                return z3.Not(z3.Or(z3.fpIsInf(a[0]), z3.fpIsNaN(a[0])))
            raise NotImplementedError("kind %s in the DAG semantics" % kind)

        return go(expr)


# --------------------------------------------------------------------------------------------- lemma library
def lemma_statements(S):
    """name -> (closed formula over fresh a, b; bit-precise meaning with the REAL IEEE operations) ; and the ground
    instantiation schema over the uninterpreted symbols."""
    RNE = z3.RNE()
    a, b = z3.FP("a", S), z3.FP("b", S)
    n = z3.fpNeg
    return {
        "mul-neg-left": (a, b, z3.fpMul(RNE, n(a), b) == n(z3.fpMul(RNE, a, b))),
        "mul-neg-right": (a, b, z3.fpMul(RNE, a, n(b)) == n(z3.fpMul(RNE, a, b))),
        "mul-comm": (a, b, z3.fpMul(RNE, a, b) == z3.fpMul(RNE, b, a)),
        "div-neg-left": (a, b, z3.fpDiv(RNE, n(a), b) == n(z3.fpDiv(RNE, a, b))),
        "div-neg-right": (a, b, z3.fpDiv(RNE, a, n(b)) == n(z3.fpDiv(RNE, a, b))),
        "add-comm": (a, b, z3.fpAdd(RNE, a, b) == z3.fpAdd(RNE, b, a)),
        "add-neg-both": (a, b, z3.Implies(z3.Not(z3.fpIsZero(z3.fpAdd(RNE, a, b))), z3.fpAdd(RNE, n(a), n(b)) == n(z3.fpAdd(RNE, a, b)))),
        "add-neg-both-zero": (a, b, z3.Implies(z3.fpIsZero(z3.fpAdd(RNE, a, b)), z3.fpIsZero(z3.fpAdd(RNE, n(a), n(b))))),
        "sub-is-add-neg": (a, b, z3.fpSub(RNE, a, b) == z3.fpAdd(RNE, a, n(b))),
        "sub-neg-both": (a, b, z3.Implies(z3.Not(z3.fpIsZero(z3.fpSub(RNE, a, b))), z3.fpSub(RNE, n(a), n(b)) == n(z3.fpSub(RNE, a, b)))),
        "sub-swap": (a, b, z3.Implies(z3.Not(z3.fpIsZero(z3.fpSub(RNE, a, b))), z3.fpSub(RNE, b, a) == n(z3.fpSub(RNE, a, b)))),
        "mul-abs": (a, b, z3.fpAbs(z3.fpMul(RNE, a, b)) == z3.fpMul(RNE, z3.fpAbs(a), z3.fpAbs(b))),
        "div-abs": (a, b, z3.fpAbs(z3.fpDiv(RNE, a, b)) == z3.fpDiv(RNE, z3.fpAbs(a), z3.fpAbs(b))),
        "mul-self-even": (a, b, z3.fpMul(RNE, n(a), n(a)) == z3.fpMul(RNE, a, a)),
        "add-zero-right": (a, b, z3.Implies(z3.And(z3.fpIsZero(b), z3.Not(z3.fpIsZero(a))), z3.fpAdd(RNE, a, b) == a)),
        "sub-zero-right": (a, b, z3.Implies(z3.And(z3.fpIsZero(b), z3.Not(z3.fpIsZero(a))), z3.fpSub(RNE, a, b) == a)),
        "sub-zero-left": (a, b, z3.Implies(z3.And(z3.fpIsZero(a), z3.Not(z3.fpIsZero(b))), z3.fpSub(RNE, a, b) == n(b))),
        "sub-zero-iff-equal": (a, b, z3.Implies(z3.fpIsZero(z3.fpSub(RNE, a, b)), z3.fpEQ(a, b))),
        "add-zero-iff-opposite": (a, b, z3.Implies(z3.fpIsZero(z3.fpAdd(RNE, a, b)), z3.fpEQ(a, n(b)))),
        "mul-zero": (a, b, z3.Implies(z3.And(z3.fpIsZero(a), z3.Not(z3.fpIsInf(b)), z3.Not(z3.fpIsNaN(b))), z3.And(z3.fpIsZero(z3.fpMul(RNE, a, b)), z3.fpIsNegative(z3.fpMul(RNE, a, b)) == z3.Xor(z3.fpIsNegative(a), z3.fpIsNegative(b))))),
        "mul-grows": (a, b, z3.Implies(z3.And(z3.fpGEQ(z3.fpAbs(b), z3.FPVal(2.0, S)), z3.Not(z3.fpIsZero(a)), z3.Not(z3.fpIsNaN(a)), z3.Not(z3.fpIsInf(a))), z3.Not(z3.fpEQ(z3.fpMul(RNE, a, b), a)))),
        "mul-nonneg": (a, b, z3.Implies(z3.And(z3.Not(z3.fpIsNaN(z3.fpMul(RNE, a, b))), z3.fpIsNegative(a) == z3.fpIsNegative(b)), z3.Not(z3.fpIsNegative(z3.fpMul(RNE, a, b))))),
        "sqrt-zero": (a, b, z3.Implies(z3.fpIsZero(a), z3.fpSqrt(RNE, a) == a)),
    }


def instantiate(den, extra_terms=()):
    """ground instances of the lemma schemas on the arguments of every recorded uninterpreted application"""
    n = z3.fpNeg
    out = []
    mul, div, add, sub = (den.fn(k, 2) for k in ("multiply", "divide", "add", "subtract"))
    for name, args, r in list(den.apps):
        if name == "multiply":
            a, b = args
            two = z3.FPVal(2.0, den.S)
            fin = lambda t: z3.Not(z3.Or(z3.fpIsInf(t), z3.fpIsNaN(t)))  # noqa
            out += [
                z3.Implies(z3.And(z3.fpIsZero(a), fin(b)), z3.And(z3.fpIsZero(r), z3.fpIsNegative(r) == z3.Xor(z3.fpIsNegative(a), z3.fpIsNegative(b)))),
                z3.Implies(z3.And(z3.fpIsZero(b), fin(a)), z3.And(z3.fpIsZero(r), z3.fpIsNegative(r) == z3.Xor(z3.fpIsNegative(a), z3.fpIsNegative(b)))),
                z3.Implies(z3.And(z3.fpGEQ(z3.fpAbs(b), two), fin(a), z3.Not(z3.fpIsZero(a))), z3.Not(z3.fpEQ(r, a))),
                z3.Implies(z3.And(z3.fpGEQ(z3.fpAbs(a), two), fin(b), z3.Not(z3.fpIsZero(b))), z3.Not(z3.fpEQ(r, b))),
                z3.Implies(z3.And(z3.Not(z3.fpIsNaN(r)), z3.fpIsNegative(a) == z3.fpIsNegative(b)), z3.Not(z3.fpIsNegative(r))),
            ]
            out += [mul(n(a), b) == n(r), mul(a, n(b)) == n(r), mul(n(a), n(b)) == r, mul(b, a) == r, z3.fpAbs(r) == mul(z3.fpAbs(a), z3.fpAbs(b))]
        elif name == "divide":
            a, b = args
            out += [div(n(a), b) == n(r), div(a, n(b)) == n(r), div(n(a), n(b)) == r, z3.fpAbs(r) == div(z3.fpAbs(a), z3.fpAbs(b))]
        elif name == "add":
            a, b = args
            out += [z3.Implies(z3.And(z3.fpIsZero(b), z3.Not(z3.fpIsZero(a))), r == a), z3.Implies(z3.And(z3.fpIsZero(a), z3.Not(z3.fpIsZero(b))), r == b), z3.Implies(z3.fpIsZero(r), z3.fpEQ(a, n(b)))]
            out += [add(b, a) == r, z3.Implies(z3.Not(z3.fpIsZero(r)), add(n(a), n(b)) == n(r)), z3.Implies(z3.fpIsZero(r), z3.fpIsZero(add(n(a), n(b))))]
            out += [sub(a, n(b)) == r, sub(b, n(a)) == r]
        elif name == "subtract":
            a, b = args
            out += [z3.Implies(z3.And(z3.fpIsZero(b), z3.Not(z3.fpIsZero(a))), r == a), z3.Implies(z3.And(z3.fpIsZero(a), z3.Not(z3.fpIsZero(b))), r == n(b)), z3.Implies(z3.fpIsZero(r), z3.fpEQ(a, b))]
            out += [add(a, n(b)) == r, z3.Implies(z3.Not(z3.fpIsZero(r)), z3.And(sub(n(a), n(b)) == n(r), sub(b, a) == n(r))), z3.Implies(z3.fpIsZero(r), z3.And(z3.fpIsZero(sub(n(a), n(b))), z3.fpIsZero(sub(b, a))))]
        elif name == "atan2":
            y, x = args
            f = den.fn("atan2", 2)
            out += [f(n(y), x) == n(r)]  # ASSUMED contract of the native: odd in its first argument (sign of zero included)
        elif name == "sqrt":
            out += [z3.Implies(z3.fpIsZero(args[0]), r == args[0])]
        elif name == "sin":
            out += [den.fn("sin", 1)(n(args[0])) == n(r)]
        elif name == "cos":
            out += [den.fn("cos", 1)(n(args[0])) == r]
    return out
