"""DENOTE - one table giving meaning to expression kinds, written from the operation names (independent of
rewrite.py).  Two semantics:

  Real  : values are z3 Reals / Bools, every node carries a definedness formula (division by zero, sqrt of a
          negative, log of a non-positive ... are undefined); transcendental natives are uninterpreted functions.
  FP    : values are SMT-LIB floats of one format (float16/32/64) / Bools; every arithmetic node carries a `noexc`
          formula (result not NaN, no overflow from finite operands, no underflow: a product/quotient of non-zero
          finite operands is neither zero nor subnormal).  Natives are uninterpreted functions on the FP sort.

`Sem.val(expr)` walks a REAL Expr DAG (repository objects); leaves that are holes / symbols become variables.
"""
from __future__ import annotations

import z3

RNE = z3.RNE()

UNARY_NATIVE = "asin acos atan asinh acosh atanh sin cos tan sinh cosh tanh log log1p log2 log10 exp expm1 exp2 asin_acos_kernel".split()
BINARY_NATIVE = "atan2 pow hypot remainder copysign nextafter floor_divide".split()
ROUNDING = dict(floor=z3.RTN(), ceil=z3.RTP(), truncate=z3.RTZ(), round=RNE)


class Undenotable(Exception):
    """the expression contains a construct this semantics does not interpret (never a verdict)"""


class Sem:
    """base: memoised walk over Expr objects"""

    def __init__(self):
        self.memo = {}
        self.vars = {}  # name -> z3 var
        self.defs = []  # definedness / noexc conjuncts of every visited node (of the expression being evaluated)
        self.axioms = []  # defining constraints of fresh values (sqrt in Real semantics ...)

    # -- hooks the engine fills in
    def leaf(self, expr):
        raise NotImplementedError

    def payload(self, v):
        raise NotImplementedError

    def val(self, expr):
        k = id(expr)
        if k not in self.memo:
            self.memo[k] = (expr, self._val(expr))
        return self.memo[k][1]

    def collect(self, expr):
        """value and the list of definedness conjuncts of exactly the nodes under `expr`"""
        saved = self.defs
        self.defs = []
        saved_memo = self.memo
        self.memo = {}
        try:
            v = self.val(expr)
            d = list(self.defs)
        finally:
            self.defs = saved
            self.memo = saved_memo
        return v, d


class RealSem(Sem):
    name = "real"

    def __init__(self, leaf, named=None):
        super().__init__()
        self._leaf = leaf
        self.uf = {}
        self.named = {}

    def fn(self, name, arity):
        if name not in self.uf:
            self.uf[name] = z3.Function("R_" + name, *([z3.RealSort()] * (arity + 1)))
        return self.uf[name]

    def named_const(self, name):
        if name in ("posinf", "neginf", "nan", "undefined"):
            raise Undenotable("non-real constant %s in Real semantics" % name)
        if name not in self.named:
            c = z3.Real("C_" + name)
            self.named[name] = c
            # what the real clause may use about format constants: only their sign and mutual order
            facts = dict(
                pi=[c > 3, c < 4],
                eps=[c > 0, c < 1],
                smallest=[c > 0, c < 1],
                smallest_subnormal=[c > 0, c < 1],
                largest=[c > 1],
            )[name]
            self.axioms.extend(facts)
            n = self.named
            if "smallest" in n and "smallest_subnormal" in n:
                self.axioms.append(n["smallest_subnormal"] < n["smallest"])
            if "smallest" in n and "eps" in n:
                self.axioms.append(n["smallest"] < n["eps"])
            if "smallest_subnormal" in n and "eps" in n:
                self.axioms.append(n["smallest_subnormal"] < n["eps"])
        return self.named[name]

    def _val(self, e):
        if getattr(e, "_vf_leaf", False):
            return self._leaf(e, self)
        kind = e.kind
        if kind == "symbol":
            return self._leaf(e, self)
        ops = e.operands
        if kind == "constant":
            v = ops[0]
            if isinstance(v, str):
                return self.named_const(v)
            return self.payload(v)
        a = [self.val(o) for o in ops]
        R = z3.RealVal
        if kind == "add":
            return a[0] + a[1]
        if kind == "subtract":
            return a[0] - a[1]
        if kind == "multiply":
            return a[0] * a[1]
        if kind == "divide":
            self.defs.append(a[1] != 0)
            return a[0] / a[1]
        if kind == "negative":
            return -a[0]
        if kind == "positive":
            return a[0]
        if kind == "absolute":
            return z3.If(a[0] >= 0, a[0], -a[0])
        if kind == "square":
            return a[0] * a[0]
        if kind == "sqrt":
            self.defs.append(a[0] >= 0)
            r = z3.FreshReal("sqrt")
            self.axioms.append(z3.Implies(a[0] >= 0, z3.And(r >= 0, r * r == a[0])))
            return r
        if kind == "minimum":
            return z3.If(a[0] <= a[1], a[0], a[1])
        if kind == "maximum":
            return z3.If(a[0] >= a[1], a[0], a[1])
        if kind == "sign":
            return z3.If(a[0] > 0, R(1), z3.If(a[0] < 0, R(-1), R(0)))
        if kind in ("upcast", "downcast"):
            return a[0]
        if kind in ("lt", "le", "gt", "ge", "eq", "ne"):
            x, y = a
            if z3.is_bool(x) or z3.is_bool(y):
                return {"eq": x == y, "ne": x != y}[kind]
            return {"lt": x < y, "le": x <= y, "gt": x > y, "ge": x >= y, "eq": x == y, "ne": x != y}[kind]
        if kind == "logical_and":
            return z3.And(a[0], a[1])
        if kind == "logical_or":
            return z3.Or(a[0], a[1])
        if kind == "logical_xor":
            return z3.Xor(a[0], a[1])
        if kind == "logical_not":
            return z3.Not(a[0])
        if kind == "select":
            return z3.If(a[0], a[1], a[2])
        if kind == "is_finite":
            return z3.BoolVal(True)
        if kind in ("log", "log2", "log10"):
            self.defs.append(a[0] > 0)
            f = self.fn(kind, 1)
            self.axioms.append(f(R(1)) == 0)
            return f(a[0])
        if kind == "log1p":
            self.defs.append(a[0] > -1)
            f = self.fn(kind, 1)
            self.axioms.append(f(R(0)) == 0)
            return f(a[0])
        if kind in UNARY_NATIVE:
            return self.fn(kind, 1)(a[0])
        if kind in BINARY_NATIVE:
            return self.fn(kind, 2)(a[0], a[1])
        raise Undenotable("kind %s in Real semantics" % kind)

    def payload(self, v):
        from vf import symexpr

        return symexpr.payload_real(v)

    # equality of two denotations
    def same(self, a, b):
        return a == b


class FPSem(Sem):
    def __init__(self, leaf, eb, sb, finfo):
        super().__init__()
        self._leaf = leaf
        self.S = z3.FPSort(eb, sb)
        self.eb, self.sb = eb, sb
        self.finfo = finfo  # dict name -> python float / numpy scalar of that format
        self.uf = {}
        self.name = "fp%d" % (eb + sb)

    def fn(self, name, arity):
        if name not in self.uf:
            self.uf[name] = z3.Function("F_" + name, *([self.S] * (arity + 1)))
        return self.uf[name]

    def cval(self, x):
        import numpy

        from vf.symrun import fpval

        return fpval(x, (self.eb, self.sb))

    def _arith(self, r, operands, kind):
        nan = z3.fpIsNaN(r)
        fin = [z3.Not(z3.Or(z3.fpIsInf(o), z3.fpIsNaN(o))) for o in operands]
        c = [z3.Not(nan), z3.Implies(z3.And(fin), z3.Not(z3.fpIsInf(r)))]
        if kind in ("multiply", "square"):
            nz = [z3.Not(z3.fpIsZero(o)) for o in operands]
            c.append(z3.Implies(z3.And(fin + nz), z3.And(z3.Not(z3.fpIsZero(r)), z3.Not(z3.fpIsSubnormal(r)))))
        if kind == "divide":
            c.append(z3.Implies(z3.And(fin + [z3.Not(z3.fpIsZero(operands[0]))]), z3.And(z3.Not(z3.fpIsZero(r)), z3.Not(z3.fpIsSubnormal(r)))))
            # a division of a finite value by zero "overflows" (infinite from finite operands) - covered above
        if kind == "sqrt":
            pass
        self.defs.extend(c)
        return r

    def _val(self, e):
        if getattr(e, "_vf_leaf", False):
            return self._leaf(e, self)
        kind = e.kind
        if kind == "symbol":
            return self._leaf(e, self)
        ops = e.operands
        if kind == "constant":
            v = ops[0]
            if isinstance(v, str):
                import numpy

                if v == "posinf":
                    return z3.fpPlusInfinity(self.S)
                if v == "neginf":
                    return z3.fpMinusInfinity(self.S)
                if v in ("nan", "undefined"):
                    self.defs.append(z3.BoolVal(False))
                    return z3.fpNaN(self.S)
                return self.cval(self.finfo[v])
            return self.payload(v)
        a = [self.val(o) for o in ops]
        if kind == "add":
            return self._arith(z3.fpAdd(RNE, a[0], a[1]), a, kind)
        if kind == "subtract":
            return self._arith(z3.fpSub(RNE, a[0], a[1]), a, kind)
        if kind == "multiply":
            return self._arith(z3.fpMul(RNE, a[0], a[1]), a, kind)
        if kind == "divide":
            return self._arith(z3.fpDiv(RNE, a[0], a[1]), a, kind)
        if kind == "square":
            return self._arith(z3.fpMul(RNE, a[0], a[0]), [a[0], a[0]], kind)
        if kind == "sqrt":
            return self._arith(z3.fpSqrt(RNE, a[0]), a, kind)
        if kind == "negative":
            return z3.fpNeg(a[0])
        if kind == "positive":
            return a[0]
        if kind == "absolute":
            return z3.fpAbs(a[0])
        if kind == "minimum":
            return z3.If(z3.fpLEQ(a[0], a[1]), a[0], a[1])
        if kind == "maximum":
            return z3.If(z3.fpGEQ(a[0], a[1]), a[0], a[1])
        if kind == "sign":
            one = self.cval(1.0)
            return z3.If(z3.fpGT(a[0], self.cval(0.0)), one, z3.If(z3.fpLT(a[0], self.cval(0.0)), z3.fpNeg(one), self.cval(0.0)))
        if kind in ROUNDING:
            return z3.fpRoundToIntegral(ROUNDING[kind], a[0])
        if kind in ("lt", "le", "gt", "ge", "eq", "ne"):
            x, y = a
            if z3.is_bool(x):
                return {"eq": x == y, "ne": x != y}[kind]
            return {"lt": z3.fpLT(x, y), "le": z3.fpLEQ(x, y), "gt": z3.fpGT(x, y), "ge": z3.fpGEQ(x, y), "eq": z3.fpEQ(x, y), "ne": z3.Not(z3.fpEQ(x, y))}[kind]
        if kind == "logical_and":
            return z3.And(a[0], a[1])
        if kind == "logical_or":
            return z3.Or(a[0], a[1])
        if kind == "logical_xor":
            return z3.Xor(a[0], a[1])
        if kind == "logical_not":
            return z3.Not(a[0])
        if kind == "select":
            return z3.If(a[0], a[1], a[2])
        if kind == "is_finite":
            return z3.Not(z3.Or(z3.fpIsInf(a[0]), z3.fpIsNaN(a[0])))
        if kind == "is_inf":
            return z3.fpIsInf(a[0])
        if kind == "is_posinf":
            return z3.And(z3.fpIsInf(a[0]), z3.fpIsPositive(a[0]))
        if kind == "is_neginf":
            return z3.And(z3.fpIsInf(a[0]), z3.fpIsNegative(a[0]))
        if kind == "is_nan":
            return z3.fpIsNaN(a[0])
        if kind in UNARY_NATIVE:
            r = self.fn(kind, 1)(a[0])
            self.defs.append(z3.Not(z3.fpIsNaN(r)))
            # what the folding rules may rely on: exact values of the natives at their fixed points
            if kind in ("log", "log2", "log10"):
                self.axioms.append(z3.fpEQ(self.fn(kind, 1)(self.cval(1.0)), self.cval(0.0)))
            if kind == "log1p":
                z = z3.FP("z!", self.S)
                self.axioms.append(z3.fpIsZero(self.fn(kind, 1)(self.cval(0.0))))
                self.axioms.append(z3.fpIsZero(self.fn(kind, 1)(z3.fpNeg(self.cval(0.0)))))
            return r
        if kind in BINARY_NATIVE:
            r = self.fn(kind, 2)(a[0], a[1])
            self.defs.append(z3.Not(z3.fpIsNaN(r)))
            return r
        raise Undenotable("kind %s in FP semantics" % kind)

    def payload(self, v):
        from vf import symexpr

        return symexpr.payload_fp(v, self)

    def same(self, a, b):
        if z3.is_bool(a) or z3.is_bool(b):
            return a == b
        # floats: equal up to the sign of zero (fp.eq identifies +0 and -0); the original is NaN-free
        return z3.fpEQ(a, b)
